//! netdump: load instances through the public JSON loader and dump every public Network getter.

use std::sync::Arc;

use model::base_types::{Location, NodeIdx};
use model::json_serialisation::load_rolling_stock_problem_instance_from_json;
use model::network::nodes::Node;
use model::network::Network;
use serde_json::{json, Value};

use crate::util::{dist_i, dur_i, guarded, loc_s, read_lines, time_s, Opts, Out};

pub fn node_kind(nw: &Network, n: NodeIdx) -> &'static str {
    match nw.node(n) {
        Node::StartDepot(_) => "sd",
        Node::EndDepot(_) => "ed",
        Node::Service(_) => "svc",
        Node::Maintenance(_) => "mnt",
    }
}

pub fn nid(nw: &Network, n: NodeIdx) -> String {
    nw.node(n).id().to_string()
}

pub fn dump_network(nw: &Arc<Network>) -> Value {
    let vts = nw.vehicle_types();
    let type_id = |vt| vts.get(vt).unwrap().id().clone();

    let all: Vec<NodeIdx> = nw.all_nodes().collect();
    let nodes: Vec<Value> = all
        .iter()
        .map(|&n| {
            let node = nw.node(n);
            let kind = node_kind(nw, n);
            let (ty, pax, seated, lim, req) = if node.is_service() {
                let vt = nw.vehicle_type_for(n);
                (
                    type_id(vt),
                    nw.passengers_of(n) as i64,
                    nw.seated_passengers_of(n) as i64,
                    nw.maximal_formation_count_for(n)
                        .map(|x| x as i64)
                        .unwrap_or(-1),
                    nw.number_of_vehicles_required_to_serve(vt, n) as i64,
                )
            } else {
                (String::from("-"), 0, 0, -1, 0)
            };
            let tracks = if node.is_maintenance() {
                nw.track_count_of_maintenance_slot(n) as i64
            } else {
                0
            };
            let depot = if node.is_depot() {
                nw.get_depot(nw.get_depot_idx(n)).id().to_string()
            } else {
                String::from("-")
            };
            json!({
                "id": node.id(),
                "k": kind,
                "ty": ty,
                "l1": loc_s(nw, node.start_location()),
                "l2": loc_s(nw, node.end_location()),
                "t1": time_s(node.start_time()),
                "t2": time_s(node.end_time()),
                "dur": dur_i(node.duration()),
                "dist": dist_i(node.travel_distance()),
                "pax": pax,
                "seated": seated,
                "lim": lim,
                "req": req,
                "tracks": tracks,
                "depot": depot,
            })
        })
        .collect();

    let mut depot_idxs: Vec<_> = nw.depots_iter().collect();
    depot_idxs.sort();
    let depots: Vec<Value> = depot_idxs
        .iter()
        .map(|&d| {
            let depot = nw.get_depot(d);
            json!({
                "id": depot.id(),
                "loc": loc_s(nw, depot.location()),
                "cap": nw.total_capacity_of(d),
                "caps": vts.iter().map(|vt| json!({"ty": type_id(vt), "cap": nw.capacity_of(d, vt)})).collect::<Vec<_>>(),
                "sn": nid(nw, nw.get_start_depot_node(d)),
                "en": nid(nw, nw.get_end_depot_node(d)),
            })
        })
        .collect();
    let (od, osn, oen) = nw.overflow_depot_idxs();

    let mut reach = Vec::new();
    let mut mindur = Vec::new();
    for &a in all.iter() {
        for &b in all.iter() {
            if nw.can_reach(a, b) {
                reach.push(json!([nid(nw, a), nid(nw, b)]));
                mindur.push(json!([
                    nid(nw, a),
                    nid(nw, b),
                    dur_i(nw.minimal_duration_between_nodes(a, b))
                ]));
            }
        }
    }

    let mut succ = Vec::new();
    let mut pred = Vec::new();
    let mut svc = Vec::new();
    for vt in vts.iter() {
        svc.push(json!({"ty": type_id(vt), "l": nw.service_nodes(vt).map(|n| nid(nw, n)).collect::<Vec<_>>()}));
        for &n in all.iter() {
            // nodes of other types are not meaningful arguments
            if nw.node(n).is_service() && nw.vehicle_type_for(n) != vt {
                continue;
            }
            succ.push(json!({"ty": type_id(vt), "n": nid(nw, n),
                "l": nw.successors(vt, n).map(|m| nid(nw, m)).collect::<Vec<_>>()}));
            pred.push(json!({"ty": type_id(vt), "n": nid(nw, n),
                "l": nw.predecessors(vt, n).map(|m| nid(nw, m)).collect::<Vec<_>>()}));
        }
    }

    let mut locs: Vec<Location> = nw.locations().iter().collect();
    locs.sort_by_key(|l| loc_s(nw, *l));
    locs.push(Location::Nowhere);
    let mut dh = Vec::new();
    for &a in locs.iter() {
        for &b in locs.iter() {
            dh.push(json!([
                loc_s(nw, a),
                loc_s(nw, b),
                dur_i(nw.locations().travel_time(a, b)),
                dist_i(nw.locations().distance(a, b))
            ]));
        }
    }

    let cfg = nw.config();
    json!({
        "digest": solution::verif::network_digest(nw),
        "nodes": nodes,
        "depots": depots,
        "overflow": {"id": nw.get_depot(od).id(), "sn": nid(nw, osn), "en": nid(nw, oen)},
        "reach": reach,
        "mindur": mindur,
        "succ": succ,
        "pred": pred,
        "svc": svc,
        "mnt": nw.maintenance_nodes().map(|n| nid(nw, n)).collect::<Vec<_>>(),
        "sdn": nw.start_depot_nodes().map(|n| nid(nw, n)).collect::<Vec<_>>(),
        "edn": nw.end_depot_nodes().map(|n| nid(nw, n)).collect::<Vec<_>>(),
        "cover": nw.coverable_nodes().map(|n| nid(nw, n)).collect::<Vec<_>>(),
        "nsvc": nw.number_of_service_nodes(),
        "size": nw.size(),
        "maint": nw.maintenance_considered(),
        "dh": dh,
        "days": dur_i(nw.planning_days()),
        "types": vts.iter().map(|vt| { let t = vts.get(vt).unwrap(); json!({
            "id": t.id(), "cap": t.capacity(), "seats": t.seats(),
            "lim": t.maximal_formation_count().map(|x| x as i64).unwrap_or(-1)}) }).collect::<Vec<_>>(),
        "cfg": {
            "forbid": cfg.forbid_dead_head_trip,
            "shuntMin": dur_i(cfg.shunting.minimal),
            "shuntDh": dur_i(cfg.shunting.dead_head_trip),
            "maxDist": dist_i(cfg.maintenance.maximal_distance),
            "staff": cfg.costs.staff, "svc": cfg.costs.service_trip, "mnt": cfg.costs.maintenance,
            "dh": cfg.costs.dead_head_trip, "idle": cfg.costs.idle,
        },
    })
}

pub fn run(opts: &Opts) -> i32 {
    let inputs = read_lines(opts.req("in"));
    let mut out = Out::create(opts.req("out"));
    for item in inputs {
        let name = item["name"].as_str().unwrap_or("?").to_string();
        let input = item["input"].clone();
        let res = guarded(|| {
            let nw = load_rolling_stock_problem_instance_from_json(input);
            dump_network(&nw)
        });
        match res {
            Ok(obs) => out.emit(&json!({"ev": "net", "name": name, "ok": true, "obs": obs})),
            Err(msg) => out.emit(&json!({"ev": "net", "name": name, "ok": false, "panic": msg})),
        }
    }
    out.flush();
    0
}
