//! trans: replay TLC-emitted operation histories (MC_Transition) on the real Transition API.
//!
//! Input: first line {"pool": {"input", "veh": [{"id", "ix", "alts": [[node ids]]}], "probe": [node ids]}},
//! following lines {"case": n, "hist": [op], "next": [op]} with op = {"op", "args"}.
//! For each case the history is replayed from the empty transition; the state reached and the
//! state after each single `next` operation are logged (cycles, cached counters, totals,
//! successor probe, empty-cycle probe).

use std::collections::HashMap;
use std::sync::Arc;

use im::HashMap as ImHashMap;
use model::base_types::{NodeIdx, VehicleIdx};
use model::json_serialisation::load_rolling_stock_problem_instance_from_json;
use model::network::Network;
use serde_json::{json, Value};
use solution::tour::Tour;
use solution::transition::Transition;
use solution::Schedule;

use crate::netdump::nid;
use crate::util::{guarded, read_lines, Opts, Out};

struct Pool {
    nw: Arc<Network>,
    alts: HashMap<String, Vec<Tour>>,
    ix: HashMap<String, u16>,
    probe: Tour,
}

fn materialise(nw: &Arc<Network>, nodes: &[NodeIdx]) -> Tour {
    let vt = nw.vehicle_types().iter().next().unwrap();
    let s = Schedule::empty(nw.clone());
    let (s1, v) = s.spawn_vehicle_for_path(vt, nodes.to_vec()).unwrap();
    let t = s1.tour_of(v).unwrap().clone();
    let got: Vec<NodeIdx> = t.all_nodes_iter().collect();
    assert_eq!(got, nodes.to_vec(), "pool tour could not be materialised as given");
    t
}

#[derive(Clone)]
struct State {
    t: Transition,
    tours: ImHashMap<VehicleIdx, Tour>,
    cur: Vec<(String, u64)>,
    // batch mode (as Schedule::update_transitions_and_violation_fast uses the API): `base` are the stale
    // tours of the batch start, `upd` the tours updated one by one since then
    batch: bool,
    base: ImHashMap<VehicleIdx, Tour>,
    upd: ImHashMap<VehicleIdx, Tour>,
    gone: Vec<VehicleIdx>,
}

fn vid(pool: &Pool, id: &str) -> VehicleIdx {
    VehicleIdx::vehicle_from(pool.ix[id])
}

fn apply(pool: &Pool, st: &State, op: &Value) -> State {
    let nw = &pool.nw;
    let name = op["op"].as_str().unwrap();
    let a = op["args"].as_array().unwrap();
    let mut st = st.clone();
    // a batch touches every vehicle at most once (the schedule never adds and updates, or updates
    // twice, one vehicle in one call); move / three_opt take one map of current tours
    let target = if name == "move" || name == "three_opt" { None } else { a[0].as_str().map(|v| vid(pool, v)) };
    if st.batch && target.map(|v| st.upd.contains_key(&v) || st.gone.contains(&v)).unwrap_or(true) {
        st.base = st.tours.clone();
        st.upd = ImHashMap::new();
        st.gone = Vec::new();
    }
    let upd_snapshot = st.upd.clone();
    let old_snapshot = if st.batch { st.base.clone() } else { st.tours.clone() };
    let mut none: ImHashMap<VehicleIdx, &Tour> = ImHashMap::new();
    if st.batch {
        for (k, t) in upd_snapshot.iter() {
            none.insert(*k, t);
        }
    }
    let old = &old_snapshot;
    let set_cur = |cur: &mut Vec<(String, u64)>, v: &str, k: u64| {
        cur.retain(|(x, _)| x != v);
        cur.push((v.to_string(), k));
    };
    match name {
        "update" => {
            let v = a[0].as_str().unwrap();
            let k = a[1].as_u64().unwrap();
            let new = pool.alts[v][(k - 1) as usize].clone();
            st.t = st.t.update_vehicle(vid(pool, v), &new, &none, old, nw);
            st.upd.insert(vid(pool, v), new.clone());
            st.tours.insert(vid(pool, v), new);
            set_cur(&mut st.cur, v, k);
        }
        "add_own" => {
            let v = a[0].as_str().unwrap();
            let k = a[1].as_u64().unwrap();
            let new = pool.alts[v][(k - 1) as usize].clone();
            st.t = st.t.add_vehicle_to_own_cycle(vid(pool, v), &new, nw);
            st.upd.insert(vid(pool, v), new.clone());
            st.tours.insert(vid(pool, v), new);
            set_cur(&mut st.cur, v, k);
        }
        "remove" => {
            let v = a[0].as_str().unwrap();
            st.t = st.t.remove_vehicle(vid(pool, v), &none, old, nw);
            st.gone.push(vid(pool, v));
            st.tours.remove(&vid(pool, v));
            st.cur.retain(|(x, _)| x != v);
        }
        "add_end" => {
            let v = a[0].as_str().unwrap();
            let k = a[1].as_u64().unwrap();
            let c = a[2].as_u64().unwrap() as usize - 1;
            let new = pool.alts[v][(k - 1) as usize].clone();
            st.tours.insert(vid(pool, v), new.clone());
            if st.batch {
                let mut with_new = none.clone();
                with_new.insert(vid(pool, v), &pool.alts[v][(k - 1) as usize]);
                st.t = st.t.add_vehicle_at_the_end(vid(pool, v), c, &with_new, old, nw);
            } else {
                st.t = st.t.add_vehicle_at_the_end(vid(pool, v), c, &none, &st.tours, nw);
            }
            st.upd.insert(vid(pool, v), new);
            set_cur(&mut st.cur, v, k);
        }
        "move" => {
            let v = a[0].as_str().unwrap();
            let c = a[1].as_u64().unwrap() as usize - 1;
            st.t = st.t.move_vehicle(vid(pool, v), c, &st.tours, nw);
        }
        "three_opt" => {
            let c = a[0].as_u64().unwrap() as usize - 1;
            let (i, j, k) = (a[1].as_u64().unwrap() as usize, a[2].as_u64().unwrap() as usize, a[3].as_u64().unwrap() as usize);
            let cyc = st.t.get_cycle(c).three_opt(i, j, k, &st.tours, nw);
            st.t = st.t.replace_cycle(c, cyc);
        }
        other => panic!("unknown op {}", other),
    }
    st
}

fn observe(pool: &Pool, st: &State) -> Value {
    let t = &st.t;
    let cyc: Vec<Value> = t.cycles_iter().map(|c| json!(c.iter().map(|v| v.to_string()).collect::<Vec<_>>())).collect();
    let cnt: Vec<i64> = t.cycles_iter().map(|c| c.maintenance_counter()).collect();
    let mut cur = st.cur.clone();
    cur.sort();
    let succ: Vec<Value> = cur
        .iter()
        .map(|(v, _)| {
            let s = guarded(|| t.get_successor_of(vid(pool, v))).map(|x| x.to_string()).unwrap_or_else(|_| "?".into());
            json!({"v": v, "s": s})
        })
        .collect();
    // probe the stack of reusable cycles: add fresh vehicles until a new cycle is appended
    let mut probe = Vec::new();
    let mut tt = t.clone();
    let n = t.number_of_cycles();
    for i in 0..(n + 1) {
        let pv = VehicleIdx::vehicle_from(1000 + i as u16);
        let r = guarded(|| tt.add_vehicle_to_own_cycle(pv, &pool.probe, &pool.nw));
        match r {
            Ok(nt) => {
                let idx = nt.cycles_iter().position(|c| c.iter().any(|x| x == pv)).map(|x| x as i64 + 1).unwrap_or(-1);
                let lost: usize = nt.cycles_iter().map(|c| c.len()).sum::<usize>();
                probe.push(json!({"idx": idx, "members": lost}));
                let appended = nt.number_of_cycles() > tt.number_of_cycles();
                tt = nt;
                if appended {
                    break;
                }
            }
            Err(_) => {
                probe.push(json!({"idx": -2, "members": 0}));
                break;
            }
        }
    }
    json!({
        "cyc": cyc, "c": cnt, "viol": t.maintenance_violation(), "cnt": t.maintenance_counter(),
        "succ": succ, "cur": cur.iter().map(|(v, k)| json!({"v": v, "k": k})).collect::<Vec<_>>(),
        "probe": probe, "ncyc": n,
    })
}

pub fn run(opts: &Opts) -> i32 {
    let lines = read_lines(opts.req("in"));
    let mut out = Out::create(opts.req("out"));
    let p = &lines[0]["pool"];
    let nw = load_rolling_stock_problem_instance_from_json(p["input"].clone());
    let map: HashMap<String, NodeIdx> = nw.all_nodes().map(|n| (nid(&nw, n), n)).collect();
    let resolve = |v: &Value| -> Vec<NodeIdx> { v.as_array().unwrap().iter().map(|x| map[x.as_str().unwrap()]).collect() };
    let mut alts = HashMap::new();
    let mut ix = HashMap::new();
    for v in p["veh"].as_array().unwrap() {
        let id = v["id"].as_str().unwrap().to_string();
        ix.insert(id.clone(), v["ix"].as_u64().unwrap() as u16);
        alts.insert(id, v["alts"].as_array().unwrap().iter().map(|a| materialise(&nw, &resolve(a))).collect::<Vec<_>>());
    }
    let pool = Pool { nw: nw.clone(), alts, ix, probe: materialise(&nw, &resolve(&p["probe"])) };
    for case in lines.iter().skip(1) {
        let n = case["case"].as_u64().unwrap();
      for batch in [false, true] {
        let start = State { t: Transition::new_fast(&[], &ImHashMap::new(), &nw), tours: ImHashMap::new(), cur: Vec::new(),
            batch, base: ImHashMap::new(), upd: ImHashMap::new(), gone: Vec::new() };
        if batch && case["hist"].as_array().unwrap().len() < 2 {
            continue; // a batch of one call is the immediate mode
        }
        let replay = guarded(|| {
            let mut st = start.clone();
            for op in case["hist"].as_array().unwrap() {
                st = apply(&pool, &st, op);
            }
            st
        });
        let st = match replay {
            Ok(st) => st,
            Err(m) => {
                out.emit(&json!({"ev": "tr", "case": n, "stage": "hist", "ok": false, "panic": true, "msg": m}));
                continue;
            }
        };
        match guarded(|| observe(&pool, &st)) {
            Ok(obs) => out.emit(&json!({"ev": "tr", "case": n, "stage": "hist", "ok": true, "panic": false, "obs": obs})),
            Err(m) => out.emit(&json!({"ev": "tr", "case": n, "stage": "hist", "ok": false, "panic": true, "msg": m})),
        }
        for (k, op) in case["next"].as_array().unwrap().iter().enumerate() {
            match guarded(|| observe(&pool, &apply(&pool, &st, op))) {
                Ok(obs) => out.emit(&json!({"ev": "tr", "case": n, "stage": "next", "k": k + 1, "ok": true, "panic": false, "obs": obs})),
                Err(m) => out.emit(&json!({"ev": "tr", "case": n, "stage": "next", "k": k + 1, "ok": false, "panic": true, "msg": m})),
            }
        }
      }
    }
    out.flush();
    0
}
