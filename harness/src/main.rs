//! rsv — conformance harness for rssched-solver.
//!
//! The harness only drives the implementation, projects observable values through public
//! getters and logs them as ndjson events. It contains no property logic: every verdict is
//! produced by TLC evaluating the TLA+ specification on the logged events.
//!
//! Usage: rsv <command> --in <file> --out <file> [options]
//! stdout of the process is expected to be redirected to /dev/null (the library prints a lot).

mod lsdrive;
mod netdump;
mod scheddrive;
mod solve;
mod tourdrive;
mod transdrive;
mod util;

fn main() {
    let args: Vec<String> = std::env::args().collect();
    if args.len() < 2 {
        eprintln!("usage: rsv <netdump|solve|sched|tour|trans|ls> --in F --out F [--seed N] ...");
        std::process::exit(2);
    }
    util::install_panic_hook();
    let opts = util::Opts::parse(&args[2..]);
    let code = match args[1].as_str() {
        "netdump" => netdump::run(&opts),
        "solve" => solve::run(&opts),
        "sched" => scheddrive::run(&opts),
        "tour" => tourdrive::run(&opts),
        "trans" => transdrive::run(&opts),
        "ls" => lsdrive::run(&opts),
        other => {
            eprintln!("unknown command {}", other);
            2
        }
    };
    std::process::exit(code);
}
