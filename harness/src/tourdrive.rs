//! tour: execute TLC-emitted cases (network + all valid tours / dummy tours / paths) on the real
//! Tour API. Tours are materialised through the public Schedule API (spawn_vehicle_for_path,
//! replace_vehicle_by_dummy) and obtained with Schedule::tour_of.
//!
//! Per network: every tour x every path -> insert_path, conflict, latest_not_reaching_node;
//! every tour x every segment (i <= j) -> check_removable, remove, sub_path; every real tour x
//! every depot -> replace_start_depot / replace_end_depot. Results are logged, not judged.

use std::collections::HashMap;
use std::sync::Arc;

use model::base_types::NodeIdx;
use model::json_serialisation::load_rolling_stock_problem_instance_from_json;
use model::network::Network;
use serde_json::{json, Value};
use solution::path::Path;
use solution::segment::Segment;
use solution::tour::Tour;
use solution::Schedule;

use crate::netdump::nid;
use crate::scheddrive::ids;
use crate::util::{dist_i, dur_i, guarded, read_lines, Opts, Out};

fn figures(t: &Tour) -> Value {
    json!({
        "sd": dist_i(t.service_distance()),
        "dd": dist_i(t.dead_head_distance()),
        "ud": dur_i(t.useful_duration()),
        "c": t.costs(),
        "vm": t.visits_maintenance(),
    })
}

fn tour_ids(nw: &Network, t: &Tour) -> Vec<String> {
    t.all_nodes_iter().map(|n| nid(nw, n)).collect()
}

fn resolve(map: &HashMap<String, NodeIdx>, v: &Value) -> Vec<NodeIdx> {
    v.as_array()
        .unwrap()
        .iter()
        .map(|x| map[x.as_str().unwrap()])
        .collect()
}

fn materialise(nw: &Arc<Network>, nodes: &[NodeIdx], dummy: bool) -> Result<Tour, String> {
    let vt = nw.vehicle_types().iter().next().unwrap();
    let s = Schedule::empty(nw.clone());
    if dummy {
        let (s1, v) = s.spawn_vehicle_for_path(vt, nodes.to_vec())?;
        let s2 = s1.replace_vehicle_by_dummy(v)?;
        let d = s2.dummy_iter().next().ok_or("no dummy")?;
        Ok(s2.tour_of(d)?.clone())
    } else {
        let (s1, v) = s.spawn_vehicle_for_path(vt, nodes.to_vec())?;
        Ok(s1.tour_of(v)?.clone())
    }
}

pub fn run(opts: &Opts) -> i32 {
    let inputs = read_lines(opts.req("in"));
    let mut out = Out::create(opts.req("out"));
    let stride = opts.num("stride", 1) as usize; // keep every stride-th insert case (1 = all)
    let rstride = opts.num("rstride", 1) as usize; // the same for depot replacements
    let mut counter: usize = 0;
    let mut rcounter: usize = 0;
    for item in inputs {
        let name = item["name"].as_str().unwrap_or("?").to_string();
        let input = item["input"].clone();
        let nw = match guarded(|| load_rolling_stock_problem_instance_from_json(input)) {
            Ok(nw) => nw,
            Err(msg) => {
                out.emit(&json!({"ev": "loadfail", "name": name, "panic": msg}));
                continue;
            }
        };
        let map: HashMap<String, NodeIdx> = nw.all_nodes().map(|n| (nid(&nw, n), n)).collect();
        let mut tours: Vec<(Tour, bool, Vec<String>)> = Vec::new();
        for (key, dummy) in [("tours", false), ("dummies", true)] {
            for t in item[key].as_array().unwrap() {
                let nodes = resolve(&map, t);
                let want = ids(&nw, &nodes);
                match guarded(|| materialise(&nw, &nodes, dummy)) {
                    Ok(Ok(tour)) => {
                        let got = tour_ids(&nw, &tour);
                        out.emit(&json!({"ev": "t", "name": name, "op": "mat", "tour": want, "dummy": dummy,
                            "ok": true, "panic": false, "res": got, "fig": figures(&tour)}));
                        if got == want {
                            tours.push((tour, dummy, want));
                        }
                    }
                    Ok(Err(e)) => out.emit(&json!({"ev": "t", "name": name, "op": "mat", "tour": want, "dummy": dummy,
                        "ok": false, "panic": false, "msg": e, "res": [], "fig": {}})),
                    Err(msg) => out.emit(&json!({"ev": "t", "name": name, "op": "mat", "tour": want, "dummy": dummy,
                        "ok": false, "panic": true, "msg": msg, "res": [], "fig": {}})),
                }
            }
        }
        let paths: Vec<Vec<NodeIdx>> = item["paths"].as_array().unwrap().iter().map(|p| resolve(&map, p)).collect();
        let sds: Vec<NodeIdx> = nw.start_depot_nodes().collect();
        let eds: Vec<NodeIdx> = nw.end_depot_nodes().collect();

        for (tour, dummy, tids) in tours.iter() {
            // ---- insert / conflict / position probe
            for p in paths.iter() {
                counter += 1;
                if counter % stride != 0 {
                    continue;
                }
                let pids = ids(&nw, p);
                let base = json!({"ev": "t", "name": name, "tour": tids, "dummy": dummy, "path": pids});
                let mk = |op: &str, extra: Value| {
                    let mut b = base.clone();
                    b["op"] = json!(op);
                    for (k, v) in extra.as_object().unwrap() {
                        b[k] = v.clone();
                    }
                    b
                };
                let res = guarded(|| {
                    let path = Path::new(p.clone(), nw.clone())?.ok_or_else(|| String::from("no activity"))?;
                    Ok::<_, String>(tour.insert_path(path))
                });
                match res {
                    Ok(Ok((nt, removed))) => out.emit(&mk("insert", json!({"ok": true, "panic": false,
                        "res": tour_ids(&nw, &nt),
                        "removed": removed.map(|r| ids(&nw, &r.iter().collect::<Vec<_>>())).unwrap_or_default(),
                        "fig": figures(&nt)}))),
                    Ok(Err(e)) => out.emit(&mk("insert", json!({"ok": false, "panic": false, "msg": e,
                        "res": [], "removed": [], "fig": {}}))),
                    Err(m) => out.emit(&mk("insert", json!({"ok": false, "panic": true, "msg": m,
                        "res": [], "removed": [], "fig": {}}))),
                }
                // conflict and position probe use the path as it would be inserted
                let eff: Vec<NodeIdx> = if *dummy {
                    p.iter().copied().filter(|&n| !nw.node(n).is_depot()).collect()
                } else {
                    p.clone()
                };
                let (first, last) = (eff[0], eff[eff.len() - 1]);
                match guarded(|| tour.conflict(Segment::new(first, last))) {
                    Ok(c) => out.emit(&mk("conflict", json!({"ok": true, "panic": false,
                        "res": c.map(|r| ids(&nw, &r.iter().collect::<Vec<_>>())).unwrap_or_default()}))),
                    Err(m) => out.emit(&mk("conflict", json!({"ok": false, "panic": true, "msg": m, "res": []}))),
                }
                if !nw.node(first).is_depot() {
                    match guarded(|| tour.latest_not_reaching_node(first)) {
                        Ok(pos) => out.emit(&mk("lnr", json!({"ok": true, "panic": false,
                            "pos": pos.map(|x| x as i64).unwrap_or(-1)}))),
                        Err(m) => out.emit(&mk("lnr", json!({"ok": false, "panic": true, "msg": m, "pos": -2}))),
                    }
                }
            }
            // ---- remove / removable / sub_path for every segment of the tour
            let nodes: Vec<NodeIdx> = tour.all_nodes_iter().collect();
            for i in 0..nodes.len() {
                for j in i..nodes.len() {
                    let has_act = (i..=j).any(|k| !nw.node(nodes[k]).is_depot());
                    if !has_act {
                        continue; // a depot alone is not a segment
                    }
                    let seg = Segment::new(nodes[i], nodes[j]);
                    let base = json!({"ev": "t", "name": name, "tour": tids, "dummy": dummy,
                        "s": nid(&nw, nodes[i]), "e": nid(&nw, nodes[j])});
                    let mk = |op: &str, extra: Value| {
                        let mut b = base.clone();
                        b["op"] = json!(op);
                        for (k, v) in extra.as_object().unwrap() {
                            b[k] = v.clone();
                        }
                        b
                    };
                    match guarded(|| tour.check_removable(seg)) {
                        Ok(r) => out.emit(&mk("removable", json!({"ok": r.is_ok(), "panic": false}))),
                        Err(m) => out.emit(&mk("removable", json!({"ok": false, "panic": true, "msg": m}))),
                    }
                    match guarded(|| tour.remove(seg)) {
                        Ok(Ok((rest, removed))) => out.emit(&mk("remove", json!({"ok": true, "panic": false,
                            "res": rest.as_ref().map(|t| tour_ids(&nw, t)).unwrap_or_default(),
                            "removed": ids(&nw, &removed.iter().collect::<Vec<_>>()),
                            "fig": rest.as_ref().map(figures).unwrap_or(json!({}))}))),
                        Ok(Err(e)) => out.emit(&mk("remove", json!({"ok": false, "panic": false, "msg": e,
                            "res": [], "removed": [], "fig": {}}))),
                        Err(m) => out.emit(&mk("remove", json!({"ok": false, "panic": true, "msg": m,
                            "res": [], "removed": [], "fig": {}}))),
                    }
                    match guarded(|| tour.sub_path(seg)) {
                        Ok(Ok(p)) => out.emit(&mk("sub_path", json!({"ok": true, "panic": false,
                            "res": ids(&nw, &p.iter().collect::<Vec<_>>())}))),
                        Ok(Err(e)) => out.emit(&mk("sub_path", json!({"ok": false, "panic": false, "msg": e, "res": []}))),
                        Err(m) => out.emit(&mk("sub_path", json!({"ok": false, "panic": true, "msg": m, "res": []}))),
                    }
                }
            }
            // ---- depot replacement
            for (op, depots) in [("rsd", &sds), ("red", &eds)] {
                for &d in depots.iter() {
                    rcounter += 1;
                    if rcounter % rstride != 0 {
                        continue;
                    }
                    let r = guarded(|| if op == "rsd" { tour.replace_start_depot(d) } else { tour.replace_end_depot(d) });
                    let base = json!({"ev": "t", "name": name, "op": op, "tour": tids, "dummy": dummy, "depot": nid(&nw, d)});
                    let mut b = base.clone();
                    match r {
                        Ok(Ok(nt)) => {
                            b["ok"] = json!(true);
                            b["panic"] = json!(false);
                            b["res"] = json!(tour_ids(&nw, &nt));
                            b["fig"] = figures(&nt);
                        }
                        Ok(Err(e)) => {
                            b["ok"] = json!(false);
                            b["panic"] = json!(false);
                            b["msg"] = json!(e);
                            b["res"] = json!([]);
                            b["fig"] = json!({});
                        }
                        Err(m) => {
                            b["ok"] = json!(false);
                            b["panic"] = json!(true);
                            b["msg"] = json!(m);
                            b["res"] = json!([]);
                            b["fig"] = json!({});
                        }
                    }
                    out.emit(&b);
                }
            }
        }
        out.flush();
    }
    out.flush();
    0
}
