//! solve: run server::solve_instance on each instance with stage snapshots (hooks H1/H2).
//!
//! Events per instance: begin, stage*, output | panic, end. The file is flushed after every
//! event so that a watchdog in the parent can attribute a hang to the instance that began last.

use serde_json::json;

use crate::util::{guarded, read_lines, Opts, Out};

pub fn run(opts: &Opts) -> i32 {
    let inputs = read_lines(opts.req("in"));
    let mut out = Out::create(opts.req("out"));
    let skip = opts.num("skip", 0) as usize;
    let which = opts.get("entry").unwrap_or("server");
    for item in inputs.into_iter().skip(skip) {
        let name = item["name"].as_str().unwrap_or("?").to_string();
        let input = item["input"].clone();
        out.emit(&json!({"ev": "begin", "name": name}));
        out.flush();
        let t0 = std::time::Instant::now();
        solution::verif::enable();
        let res = guarded(|| {
            if which == "server" {
                server::solve_instance(input)
            } else {
                unreachable!()
            }
        });
        let events = solution::verif::drain();
        solution::verif::disable();
        for e in events {
            out.emit_raw(&e);
        }
        // re-run the transition optimiser on the schedule the pipeline says carries its result:
        // the optimiser's own choice is a local optimum, so the re-run must not find anything better
        let stages = solution::verif::take_stage_schedules();
        if res.is_ok() {
            if let Some((_, sched)) = stages.iter().find(|(l, _)| l == "transopt") {
                let sched = sched.clone();
                let rerun = guarded(|| {
                    let nw = sched.get_network();
                    let solver = solver::transition_local_search::build_transition_local_search_solver(&sched, nw.clone());
                    let mut per_type = Vec::new();
                    for vt in nw.vehicle_types().iter() {
                        let start = solver::transition_local_search::TransitionWithInfo::new(
                            sched.next_day_transition_of(vt).clone(),
                            "rerun".to_string(),
                        );
                        let t = rapid_solve::heuristics::Solver::solve(&solver, start).unwrap().unwrap_transition();
                        per_type.push(json!({
                            "ty": nw.vehicle_types().get(vt).unwrap().id(),
                            "cyc": t.cycles_iter().map(|c| c.iter().map(|v| v.to_string()).collect::<Vec<_>>()).collect::<Vec<_>>(),
                        }));
                    }
                    per_type
                });
                match rerun {
                    Ok(per_type) => out.emit(&json!({"ev": "optrerun", "name": name, "ok": true, "tr": per_type})),
                    Err(m) => out.emit(&json!({"ev": "optrerun", "name": name, "ok": false, "msg": m, "tr": []})),
                }
            }
        }
        let status = match res {
            Ok(output) => {
                out.emit(&json!({"ev": "output", "name": name, "out": output}));
                "ok"
            }
            Err(msg) => {
                out.emit(&json!({"ev": "panic", "name": name, "msg": msg}));
                "panic"
            }
        };
        out.emit(&json!({"ev": "end", "name": name, "status": status,
            "wall_ms": t0.elapsed().as_millis() as u64}));
        out.flush();
    }
    0
}
