//! solve: run server::solve_instance on each instance with stage snapshots (hooks H1/H2).
//!
//! Events per instance: begin, stage*, output | panic, end. The file is flushed after every
//! event so that a watchdog in the parent can attribute a hang to the instance that began last.

use serde_json::json;

use crate::util::{guarded, read_lines, Opts, Out};

pub fn run(opts: &Opts) -> i32 {
    let inputs = read_lines(opts.req("in"));
    let mut out = Out::create(opts.req("out"));
    let skip = opts.num("skip", 0) as usize;
    let which = opts.get("entry").unwrap_or("server");
    for item in inputs.into_iter().skip(skip) {
        let name = item["name"].as_str().unwrap_or("?").to_string();
        let input = item["input"].clone();
        out.emit(&json!({"ev": "begin", "name": name}));
        out.flush();
        let t0 = std::time::Instant::now();
        solution::verif::enable();
        let res = guarded(|| {
            if which == "server" {
                server::solve_instance(input)
            } else {
                unreachable!()
            }
        });
        let events = solution::verif::drain();
        solution::verif::disable();
        for e in events {
            out.emit_raw(&e);
        }
        let status = match res {
            Ok(output) => {
                out.emit(&json!({"ev": "output", "name": name, "out": output}));
                "ok"
            }
            Err(msg) => {
                out.emit(&json!({"ev": "panic", "name": name, "msg": msg}));
                "panic"
            }
        };
        out.emit(&json!({"ev": "end", "name": name, "status": status,
            "wall_ms": t0.elapsed().as_millis() as u64}));
        out.flush();
    }
    0
}
