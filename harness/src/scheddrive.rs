//! sched: adaptive random walks over the whole public modification API of Schedule.
//!
//! Input lines: {"name", "input", "steps", "seed"}. For each instance the walk starts from
//! Schedule::empty. One `op` event per call: name, arguments, ok / error / panic, returned ids,
//! the projection of the result, and a digest of the projection of the *input* schedule taken
//! before and after the call (frame condition "the input value is untouched").
//! Arguments are chosen from the implementation's current state so that long histories stay
//! meaningful; whether a call had to succeed is decided by the specification, not here.

use std::sync::Arc;

use im::HashMap as ImHashMap;
use model::base_types::{NodeIdx, VehicleIdx, VehicleTypeIdx};
use model::json_serialisation::load_rolling_stock_problem_instance_from_json;
use model::network::Network;
use serde_json::{json, Value};
use solution::path::Path;
use solution::segment::Segment;
use solution::transition::Transition;
use solution::Schedule;

use crate::netdump::nid;
use crate::util::{guarded, read_lines, Opts, Out, Rng};

pub fn digest(v: &Value) -> String {
    // FNV-1a over the serialised projection
    let s = v.to_string();
    let mut h: u64 = 0xcbf29ce484222325;
    for b in s.as_bytes() {
        h ^= *b as u64;
        h = h.wrapping_mul(0x100000001b3);
    }
    format!("{:016x}", h)
}

fn type_id(nw: &Network, vt: VehicleTypeIdx) -> String {
    nw.vehicle_types().get(vt).unwrap().id().clone()
}

pub fn ids(nw: &Network, nodes: &[NodeIdx]) -> Vec<String> {
    nodes.iter().map(|&n| nid(nw, n)).collect()
}

fn tour_nodes(s: &Schedule, v: VehicleIdx) -> Vec<NodeIdx> {
    s.tour_of(v).unwrap().all_nodes_iter().collect()
}

/// a random node sequence that the implementation considers a path for the type
fn random_path(nw: &Arc<Network>, vt: VehicleTypeIdx, rng: &mut Rng, depots: bool) -> Vec<NodeIdx> {
    let cands: Vec<NodeIdx> = nw
        .nodes_of_vehicle_type_sorted_by_start(vt)
        .filter(|&n| !nw.node(n).is_depot())
        .collect();
    let mut path = Vec::new();
    if cands.is_empty() {
        return path;
    }
    let mut cur = cands[rng.below(cands.len())];
    path.push(cur);
    let len = 1 + rng.below(4);
    while path.len() < len {
        let next: Vec<NodeIdx> = cands
            .iter()
            .copied()
            .filter(|&m| nw.can_reach(cur, m))
            .take(4)
            .collect();
        match rng.pick(&next) {
            Some(&m) => {
                cur = m;
                path.push(m);
            }
            None => break,
        }
    }
    if depots {
        if rng.chance(1, 3) {
            let sds: Vec<NodeIdx> = nw.start_depot_nodes().collect();
            path.insert(0, *rng.pick(&sds).unwrap());
        }
        if rng.chance(1, 3) {
            let eds: Vec<NodeIdx> = nw.end_depot_nodes().collect();
            path.push(*rng.pick(&eds).unwrap());
        }
    }
    path
}

fn random_segment(s: &Schedule, v: VehicleIdx, rng: &mut Rng, allow_depots: bool) -> (NodeIdx, NodeIdx) {
    let nodes = tour_nodes(s, v);
    let real = s.is_vehicle(v);
    let (lo, hi) = if real && !(allow_depots && rng.chance(1, 4)) {
        (1, nodes.len() - 2)
    } else {
        (0, nodes.len() - 1)
    };
    let i = lo + rng.below(hi - lo + 1);
    let mut j = i + rng.below((hi - i + 1).min(3));
    if real && i == j && (i == 0 || i == nodes.len() - 1) {
        // a depot alone is not a segment: take the whole tour instead
        return (nodes[0], nodes[nodes.len() - 1]);
    }
    if real && i == 0 && j < nodes.len() - 1 && rng.chance(1, 2) {
        j = nodes.len() - 1;
    }
    if real && rng.chance(1, 8) {
        // whole tour including depots
        return (nodes[0], nodes[nodes.len() - 1]);
    }
    (nodes[i], nodes[j])
}

fn cycles_json(t: &Transition) -> Value {
    json!(t
        .cycles_iter()
        .map(|c| c.iter().map(|v| v.to_string()).collect::<Vec<_>>())
        .collect::<Vec<_>>())
}

pub struct Walker {
    pub nw: Arc<Network>,
    pub cur: Schedule,
    pub rng: Rng,
}

pub enum CallResult {
    Sched(Schedule, Value),
    Failed(String),
}

impl Walker {
    fn reals(&self) -> Vec<VehicleIdx> {
        self.cur.vehicles_iter_all().collect()
    }
    fn dummies(&self) -> Vec<VehicleIdx> {
        self.cur.dummy_iter().collect()
    }
    fn types(&self) -> Vec<VehicleTypeIdx> {
        self.nw.vehicle_types().iter().collect()
    }

    /// choose the next call: (name, args as json, closure result)
    pub fn step(&mut self) -> Option<(String, Value, Result<CallResult, String>)> {
        let reals = self.reals();
        let dummies = self.dummies();
        let types = self.types();
        let nw = self.nw.clone();
        let s = self.cur.clone();
        let mut all: Vec<VehicleIdx> = reals.clone();
        all.extend(dummies.iter().copied());
        let r = self.rng.below(100);
        let few = reals.len() < 2;
        // weights
        // "valid arguments" never exhaust the artificial overflow depot (its capacity stands for
        // infinity): do not spawn more vehicles than it could host
        let overflow = nw.overflow_depot_idxs().0;
        let room = |vt: VehicleTypeIdx| reals.len() + 1 < nw.capacity_of(overflow, vt) as usize;
        if r < 18 || (few && r < 60) {
            let vt = *self.rng.pick(&types)?;
            if !room(vt) {
                return None;
            }
            let path = random_path(&nw, vt, &mut self.rng, true);
            if path.is_empty() {
                return None;
            }
            let args = json!({"ty": type_id(&nw, vt), "path": ids(&nw, &path)});
            let res = guarded(|| match s.spawn_vehicle_for_path(vt, path) {
                Ok((sch, v)) => CallResult::Sched(sch, json!({"id": v.to_string()})),
                Err(e) => CallResult::Failed(e),
            });
            return Some(("spawn_vehicle_for_path".into(), args, res));
        }
        if r < 24 {
            let d = *self.rng.pick(&dummies)?;
            // mostly the right type
            let first = tour_nodes(&s, d)[0];
            let vt = if self.rng.chance(5, 6) && nw.node(first).is_service() {
                nw.vehicle_type_for(first)
            } else {
                *self.rng.pick(&types)?
            };
            if !room(vt) {
                return None;
            }
            let args = json!({"dummy": d.to_string(), "ty": type_id(&nw, vt)});
            let res = guarded(|| match s.spawn_vehicle_to_replace_dummy_tour(d, vt) {
                Ok((sch, v)) => CallResult::Sched(sch, json!({"id": v.to_string()})),
                Err(e) => CallResult::Failed(e),
            });
            return Some(("spawn_vehicle_to_replace_dummy_tour".into(), args, res));
        }
        if r < 29 {
            let v = *self.rng.pick(&reals)?;
            let args = json!({"v": v.to_string()});
            let res = guarded(|| match s.replace_vehicle_by_dummy(v) {
                Ok(sch) => CallResult::Sched(sch, json!({})),
                Err(e) => CallResult::Failed(e),
            });
            return Some(("replace_vehicle_by_dummy".into(), args, res));
        }
        if r < 41 {
            let v = *self.rng.pick(&reals)?;
            let vt = s.vehicle_type_of(v).unwrap();
            let vt_path = if self.rng.chance(1, 12) { *self.rng.pick(&types)? } else { vt };
            let nodes = random_path(&nw, vt_path, &mut self.rng, true);
            if nodes.is_empty() {
                return None;
            }
            let args = json!({"v": v.to_string(), "path": ids(&nw, &nodes)});
            let res = guarded(|| {
                let path = match Path::new(nodes, nw.clone()) {
                    Ok(Some(p)) => p,
                    Ok(None) => return CallResult::Failed("no path".into()),
                    Err(e) => return CallResult::Failed(e),
                };
                match s.add_path_to_vehicle_tour(v, path) {
                    Ok((sch, removed)) => CallResult::Sched(
                        sch,
                        json!({"removed": removed.map(|p| ids(&nw, &p.iter().collect::<Vec<_>>())).unwrap_or_default()}),
                    ),
                    Err(e) => CallResult::Failed(e),
                }
            });
            return Some(("add_path_to_vehicle_tour".into(), args, res));
        }
        if r < 51 {
            let v = *self.rng.pick(&reals)?;
            let (a, b) = random_segment(&s, v, &mut self.rng, true);
            let args = json!({"v": v.to_string(), "s": nid(&nw, a), "e": nid(&nw, b)});
            let res = guarded(|| match s.remove_segment(Segment::new(a, b), v) {
                Ok(sch) => CallResult::Sched(sch, json!({})),
                Err(e) => CallResult::Failed(e),
            });
            return Some(("remove_segment".into(), args, res));
        }
        let restricted = types.len() > 1
            && nw.depots_iter().any(|d| types.iter().any(|&o| nw.capacity_of(d, o) == 0) && types.iter().any(|&o| nw.capacity_of(d, o) > 0));
        if r >= 51 && (r < 54 || (restricted && r < 62)) {
            // a maintenance-only tour handed over completely (depots included) to a vehicle of
            // another type: documented as allowed (no service trip in the segment)
            let donors: Vec<VehicleIdx> = reals
                .iter()
                .copied()
                .filter(|&v| tour_nodes(&s, v).iter().all(|&n| !nw.node(n).is_service()))
                .collect();
            if let Some(&p) = self.rng.pick(&donors) {
                let others: Vec<VehicleIdx> = reals
                    .iter()
                    .copied()
                    .filter(|&v| v != p && s.vehicle_type_of(v).ok() != s.vehicle_type_of(p).ok())
                    .collect();
                // mostly a receiver whose type the donor's start depot does not host
                let sd = tour_nodes(&s, p)[0];
                let unhosted: Vec<VehicleIdx> = others
                    .iter()
                    .copied()
                    .filter(|&v| nw.capacity_of(nw.get_depot_idx(sd), s.vehicle_type_of(v).unwrap()) == 0)
                    .collect();
                let pool = if !unhosted.is_empty() && self.rng.chance(3, 4) { &unhosted } else { &others };
                if let Some(&rcv) = self.rng.pick(pool) {
                    let nodes = tour_nodes(&s, p);
                    let (a, b) = (nodes[0], nodes[nodes.len() - 1]);
                    let args = json!({"p": p.to_string(), "r": rcv.to_string(), "s": nid(&nw, a), "e": nid(&nw, b)});
                    let res = guarded(|| match s.override_reassign(Segment::new(a, b), p, rcv) {
                        Ok((sch, d)) => CallResult::Sched(sch, json!({"dummy": d.map(|x| x.to_string()).unwrap_or_default()})),
                        Err(e) => CallResult::Failed(e),
                    });
                    return Some(("override_reassign".into(), args, res));
                }
            } else if types.len() > 1 {
                // no such tour yet: create one
                let ms: Vec<NodeIdx> = nw.maintenance_nodes().collect();
                if let Some(&m) = self.rng.pick(&ms) {
                    let vt = *self.rng.pick(&types)?;
                    if room(vt) {
                        // preferably at a depot that hosts this type but not every other type
                        let sds: Vec<NodeIdx> = nw
                            .start_depot_nodes()
                            .filter(|&d| {
                                let dep = nw.get_depot_idx(d);
                                nw.capacity_of(dep, vt) > 0 && types.iter().any(|&o| nw.capacity_of(dep, o) == 0)
                            })
                            .collect();
                        let path = match self.rng.pick(&sds) {
                            Some(&d) => vec![d, m],
                            None => vec![m],
                        };
                        let args = json!({"ty": type_id(&nw, vt), "path": ids(&nw, &path)});
                        let res = guarded(|| match s.spawn_vehicle_for_path(vt, path) {
                            Ok((sch, v)) => CallResult::Sched(sch, json!({"id": v.to_string()})),
                            Err(e) => CallResult::Failed(e),
                        });
                        return Some(("spawn_vehicle_for_path".into(), args, res));
                    }
                }
            }
        }
        if r < 77 {
            if all.len() < 2 {
                return None;
            }
            let p = *self.rng.pick(&all)?;
            let mut rcv = *self.rng.pick(&all)?;
            // prefer receivers of the same type as the provider
            for _ in 0..4 {
                let same = match (s.vehicle_type_of(p), s.vehicle_type_of(rcv)) {
                    (Ok(a), Ok(b)) => a == b,
                    _ => true,
                };
                if rcv != p && same {
                    break;
                }
                rcv = *self.rng.pick(&all)?;
            }
            if rcv == p {
                return None;
            }
            let (a, b) = random_segment(&s, p, &mut self.rng, true);
            let args = json!({"p": p.to_string(), "r": rcv.to_string(), "s": nid(&nw, a), "e": nid(&nw, b)});
            if r < 64 {
                let res = guarded(|| match s.override_reassign(Segment::new(a, b), p, rcv) {
                    Ok((sch, d)) => CallResult::Sched(
                        sch,
                        json!({"dummy": d.map(|x| x.to_string()).unwrap_or_default()}),
                    ),
                    Err(e) => CallResult::Failed(e),
                });
                return Some(("override_reassign".into(), args, res));
            } else {
                let res = guarded(|| match s.fit_reassign(Segment::new(a, b), p, rcv) {
                    Ok(sch) => CallResult::Sched(sch, json!({})),
                    Err(e) => CallResult::Failed(e),
                });
                return Some(("fit_reassign".into(), args, res));
            }
        }
        if r < 84 {
            if reals.is_empty() {
                return None;
            }
            let subset: Option<Vec<VehicleIdx>> = if self.rng.chance(1, 3) {
                None
            } else if self.rng.chance(1, 3) {
                // a vehicle after its successor in the rotation (any order of distinct vehicles is a valid argument)
                let v = *self.rng.pick(&reals)?;
                let succ = s.next_day_transition_of(s.vehicle_type_of(v).unwrap()).get_successor_of(v);
                if succ != v {
                    Some(vec![succ, v])
                } else {
                    Some(vec![v])
                }
            } else {
                let mut vs: Vec<VehicleIdx> = reals.iter().copied().filter(|_| self.rng.chance(1, 2)).collect();
                if vs.is_empty() {
                    vs.push(reals[0]);
                }
                if self.rng.chance(1, 2) {
                    // not only ascending ids
                    for i in (1..vs.len()).rev() {
                        let j = self.rng.below(i + 1);
                        vs.swap(i, j);
                    }
                }
                Some(vs)
            };
            let args = json!({"all": subset.is_none(),
                "vs": subset.clone().unwrap_or_default().iter().map(|v| v.to_string()).collect::<Vec<_>>()});
            let res = guarded(|| CallResult::Sched(s.improve_depots(subset), json!({})));
            return Some(("improve_depots".into(), args, res));
        }
        if r < 88 {
            let res = guarded(|| match s.reassign_end_depots_greedily() {
                Ok(sch) => CallResult::Sched(sch, json!({})),
                Err(e) => CallResult::Failed(e),
            });
            return Some(("reassign_end_depots_greedily".into(), json!({}), res));
        }
        if r < 92 {
            let res = guarded(|| CallResult::Sched(s.reassign_end_depots_consistent_with_transitions(), json!({})));
            return Some(("reassign_end_depots_consistent_with_transitions".into(), json!({}), res));
        }
        if r < 96 {
            let subset: Option<Vec<VehicleTypeIdx>> = if self.rng.chance(1, 2) {
                None
            } else {
                Some(vec![*self.rng.pick(&types)?])
            };
            let args = json!({"all": subset.is_none(),
                "tys": subset.clone().unwrap_or_default().iter().map(|&t| type_id(&nw, t)).collect::<Vec<_>>()});
            let res = guarded(|| CallResult::Sched(s.recompute_transitions_for(subset), json!({})));
            return Some(("recompute_transitions_for".into(), args, res));
        }
        // set_next_day_transitions with transitions over exactly the schedule's vehicles
        let mut moves = Vec::new();
        for &vt in types.iter() {
            let vs: Vec<VehicleIdx> = s.vehicles_iter(vt).collect();
            let k = self.rng.below(3);
            for _ in 0..k {
                if let Some(&v) = self.rng.pick(&vs) {
                    moves.push((vt, v, self.rng.below(8)));
                }
            }
        }
        let built = guarded(|| {
            let mut x: ImHashMap<VehicleTypeIdx, Transition> = ImHashMap::new();
            for &vt in types.iter() {
                let vs: Vec<VehicleIdx> = s.vehicles_iter(vt).collect();
                let mut t = Transition::new_fast(&vs, s.get_tours(), &nw);
                for (mvt, v, c) in moves.iter() {
                    if *mvt == vt && t.number_of_cycles() > 0 {
                        t = t.move_vehicle(*v, c % t.number_of_cycles(), s.get_tours(), &nw);
                    }
                }
                x.insert(vt, t);
            }
            x
        });
        let x = match built {
            Ok(x) => x,
            Err(_) => return None, // building the argument failed: not a call of the operation under test
        };
        let args = json!({"x": types.iter().map(|&vt| json!({"ty": type_id(&nw, vt), "cyc": cycles_json(&x[&vt])})).collect::<Vec<_>>()});
        let res = guarded(|| CallResult::Sched(s.set_next_day_transitions(x), json!({})));
        Some(("set_next_day_transitions".into(), args, res))
    }
}

fn parse_vehicle(s: &str) -> VehicleIdx {
    if let Some(n) = s.strip_prefix("veh_") {
        VehicleIdx::vehicle_from(n.parse().unwrap())
    } else {
        VehicleIdx::dummy_from(s.strip_prefix("dummy_").unwrap().parse().unwrap())
    }
}

/// apply one call given by name and arguments (replay of specification histories)
fn apply_named(nw: &Arc<Network>, s: &Schedule, op: &Value) -> Result<Schedule, String> {
    let map: std::collections::HashMap<String, NodeIdx> = nw.all_nodes().map(|n| (nid(nw, n), n)).collect();
    let a = &op["args"];
    let node = |v: &Value| -> NodeIdx { map[v.as_str().unwrap()] };
    let nodes = |v: &Value| -> Vec<NodeIdx> { v.as_array().unwrap().iter().map(|x| map[x.as_str().unwrap()]).collect() };
    let vt = |v: &Value| -> VehicleTypeIdx {
        nw.vehicle_types().iter().find(|&t| type_id(nw, t) == v.as_str().unwrap()).unwrap()
    };
    match op["op"].as_str().unwrap() {
        "spawn_vehicle_for_path" => s.spawn_vehicle_for_path(vt(&a["ty"]), nodes(&a["path"])).map(|x| x.0),
        "replace_vehicle_by_dummy" => s.replace_vehicle_by_dummy(parse_vehicle(a["v"].as_str().unwrap())),
        "add_path_to_vehicle_tour" => {
            let path = Path::new(nodes(&a["path"]), nw.clone())?.ok_or_else(|| String::from("no activity"))?;
            s.add_path_to_vehicle_tour(parse_vehicle(a["v"].as_str().unwrap()), path).map(|x| x.0)
        }
        "remove_segment" => s.remove_segment(Segment::new(node(&a["s"]), node(&a["e"])), parse_vehicle(a["v"].as_str().unwrap())),
        "override_reassign" => s
            .override_reassign(
                Segment::new(node(&a["s"]), node(&a["e"])),
                parse_vehicle(a["p"].as_str().unwrap()),
                parse_vehicle(a["r"].as_str().unwrap()),
            )
            .map(|x| x.0),
        "reassign_end_depots_consistent_with_transitions" => Ok(s.reassign_end_depots_consistent_with_transitions()),
        other => Err(format!("unknown op {}", other)),
    }
}

fn run_replay(opts: &Opts) -> i32 {
    let inputs = read_lines(opts.req("in"));
    let mut out = Out::create(opts.req("out"));
    let nw = load_rolling_stock_problem_instance_from_json(inputs[0]["input"].clone());
    for case in inputs.iter().skip(1) {
        let k = case["case"].as_u64().unwrap();
        let res = guarded(|| {
            let mut s = Schedule::empty(nw.clone());
            for (i, op) in case["hist"].as_array().unwrap().iter().enumerate() {
                match apply_named(&nw, &s, op) {
                    Ok(n) => s = n,
                    Err(e) => return Err((i, e)),
                }
            }
            Ok(solution::verif::project(&s))
        });
        match res {
            Ok(Ok(p)) => out.emit(&json!({"ev": "replayed", "case": k, "ok": true, "panic": false, "S": p})),
            Ok(Err((i, e))) => out.emit(&json!({"ev": "replayed", "case": k, "ok": false, "panic": false, "at": i, "msg": e})),
            Err(m) => out.emit(&json!({"ev": "replayed", "case": k, "ok": false, "panic": true, "at": -1, "msg": m})),
        }
    }
    out.flush();
    0
}

/// the real transition optimiser on an arbitrary reachable schedule (C15): per type the cycles it returns
/// Two inputs per type: the cycles the schedule carries, and the cycles recompute_transitions_for builds
/// from the same tours. Runs in a thread under a time limit (an optimiser that does not terminate is data).
fn transopt_event(name: &str, nw: &Arc<Network>, sched: &Schedule) -> Value {
    use std::sync::atomic::{AtomicBool, Ordering};
    static GAVE_UP: AtomicBool = AtomicBool::new(false);
    if GAVE_UP.load(Ordering::SeqCst) {
        return json!({"ev": "topt", "name": name, "ok": true, "tr": [], "msg": "skipped after a timeout"});
    }
    let (tx, rx) = std::sync::mpsc::channel();
    let (nw2, sched2) = (nw.clone(), sched.clone());
    std::thread::spawn(move || {
        let res = guarded(|| {
            let cycles = |t: &Transition| {
                t.cycles_iter().map(|c| c.iter().map(|v| v.to_string()).collect::<Vec<_>>()).collect::<Vec<_>>()
            };
            let mut runs = Vec::new();
            for (label, s) in [("as_is", sched2.clone()), ("recomputed", sched2.recompute_transitions_for(None))] {
                let solver = solver::transition_local_search::build_transition_local_search_solver(&s, nw2.clone());
                for vt in nw2.vehicle_types().iter() {
                    let before = s.next_day_transition_of(vt).clone();
                    let start = solver::transition_local_search::TransitionWithInfo::new(before.clone(), "walk".to_string());
                    let t = rapid_solve::heuristics::Solver::solve(&solver, start).unwrap().unwrap_transition();
                    runs.push(json!({"input": label, "ty": type_id(&nw2, vt), "pre": cycles(&before), "cyc": cycles(&t)}));
                }
            }
            runs
        });
        let _ = tx.send(res);
    });
    match rx.recv_timeout(std::time::Duration::from_secs(90)) {
        Ok(Ok(tr)) => json!({"ev": "topt", "name": name, "ok": true, "tr": tr, "msg": ""}),
        Ok(Err(m)) => json!({"ev": "topt", "name": name, "ok": false, "tr": [], "msg": m}),
        Err(_) => {
            GAVE_UP.store(true, Ordering::SeqCst);
            json!({"ev": "topt", "name": name, "ok": false, "tr": [], "msg": "no result within 90 s"})
        }
    }
}

pub fn run(opts: &Opts) -> i32 {
    if opts.get("mode") == Some("replay") {
        return run_replay(opts);
    }
    let inputs = read_lines(opts.req("in"));
    let mut out = Out::create(opts.req("out"));
    for item in inputs {
        let name = item["name"].as_str().unwrap_or("?").to_string();
        let steps = item["steps"].as_u64().unwrap_or(40);
        let seed = item["seed"].as_u64().unwrap_or(1);
        let input = item["input"].clone();
        let nw = match guarded(|| load_rolling_stock_problem_instance_from_json(input)) {
            Ok(nw) => nw,
            Err(msg) => {
                out.emit(&json!({"ev": "loadfail", "name": name, "panic": msg}));
                continue;
            }
        };
        let start = Schedule::empty(nw.clone());
        out.emit(&json!({"ev": "init", "name": name, "S": solution::verif::project(&start)}));
        let mut w = Walker { nw: nw.clone(), cur: start, rng: Rng(seed ^ 0x5bd1e995) };
        let mut done = 0;
        let mut attempts = 0;
        while done < steps && attempts < steps * 4 {
            attempts += 1;
            let pre = w.cur.clone();
            let hb = digest(&solution::verif::project(&pre));
            let (opname, args, res) = match w.step() {
                Some(x) => x,
                None => continue,
            };
            let ha = match guarded(|| digest(&solution::verif::project(&pre))) {
                Ok(h) => h,
                Err(_) => String::from("projection-panicked"),
            };
            done += 1;
            match res {
                Ok(CallResult::Sched(sch, ret)) => {
                    match guarded(|| solution::verif::project(&sch)) {
                        Ok(proj) => {
                            out.emit(&json!({"ev": "op", "name": name, "op": opname, "args": args, "ok": true,
                                "panic": false, "ret": ret, "hb": hb, "ha": ha, "S": proj}));
                            w.cur = sch;
                            if done % 4 == 0 || done == steps {
                                out.emit(&transopt_event(&name, &nw, &w.cur));
                            }
                        }
                        Err(msg) => {
                            out.emit(&json!({"ev": "op", "name": name, "op": opname, "args": args, "ok": false,
                                "panic": true, "msg": format!("projection of result panicked: {}", msg), "hb": hb, "ha": ha}));
                        }
                    }
                }
                Ok(CallResult::Failed(e)) => {
                    let mut e = e;
                    e.truncate(160);
                    out.emit(&json!({"ev": "op", "name": name, "op": opname, "args": args, "ok": false,
                        "panic": false, "msg": e, "hb": hb, "ha": ha}));
                }
                Err(msg) => {
                    out.emit(&json!({"ev": "op", "name": name, "op": opname, "args": args, "ok": false,
                        "panic": true, "msg": msg, "hb": hb, "ha": ha}));
                }
            }
        }
        out.flush();
    }
    out.flush();
    0
}
