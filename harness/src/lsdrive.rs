use crate::util::Opts;

pub fn run(_opts: &Opts) -> i32 {
    eprintln!("not implemented yet");
    2
}
