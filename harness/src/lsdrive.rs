//! ls: local-search drivers.
//!
//! --mode fix  (C08): start = improve_depots(MCF); run the real local search (hook H1 records every
//!                    accepted step), then run it again on its own result.
//! --mode cand (C11): random (not only improving) walks through the neighbourhood; every candidate
//!                    of every visited schedule is projected.

use std::sync::Arc;

use model::json_serialisation::load_rolling_stock_problem_instance_from_json;
use model::network::Network;
use rapid_solve::heuristics::common::ParallelNeighborhood;
use rapid_solve::heuristics::Solver;
use rapid_time::Duration;
use rayon::iter::ParallelIterator;
use serde_json::json;
use solver::local_search::neighborhood::swaps::SwapInfo;
use solver::local_search::neighborhood::RSSchedParallelNeighborhood;
use solver::local_search::{build_local_search_solver, ScheduleWithInfo};
use solver::min_cost_flow_solver::MinCostFlowSolver;

use crate::scheddrive::digest;
use crate::util::{guarded, read_lines, Opts, Out, Rng};

fn start_schedule(nw: &Arc<Network>) -> ScheduleWithInfo {
    let mcf = MinCostFlowSolver::initialize(nw.clone()).solve();
    ScheduleWithInfo::new(mcf.improve_depots(None), SwapInfo::NoSwap, "start".to_string())
}

fn run_fix(item: &serde_json::Value, out: &mut Out) {
    let name = item["name"].as_str().unwrap_or("?").to_string();
    let input = item["input"].clone();
    out.emit(&json!({"ev": "begin", "name": name}));
    out.flush();
    let res = guarded(|| {
        let nw = load_rolling_stock_problem_instance_from_json(input);
        let start = start_schedule(&nw);
        solution::verif::enable();
        solution::verif::record_stage("start", start.get_schedule());
        let solver = build_local_search_solver(nw.clone());
        let result = solver.solve(start);
        solution::verif::record_stage("ls", result.solution().get_schedule());
        let first = solution::verif::drain();
        // run it again on its own result
        let again = ScheduleWithInfo::new(result.solution().get_schedule().clone(), SwapInfo::NoSwap, "rerun".to_string());
        let result2 = solver.solve(again);
        let second = solution::verif::drain();
        solution::verif::disable();
        (first, second.len(), solution::verif::project(result2.solution().get_schedule()))
    });
    match res {
        Ok((first, nsteps2, s2)) => {
            for e in first {
                out.emit_raw(&e);
            }
            out.emit(&json!({"ev": "rerun", "name": name, "nsteps": nsteps2, "S": s2}));
            out.emit(&json!({"ev": "end", "name": name, "status": "ok"}));
        }
        Err(msg) => {
            solution::verif::disable();
            out.emit(&json!({"ev": "panic", "name": name, "msg": msg}));
            out.emit(&json!({"ev": "end", "name": name, "status": "panic"}));
        }
    }
    out.flush();
}

/// the swap behind a candidate, parsed from its print text (the only trace of it the candidate carries):
/// {k: PE|SM|HH|RN, a, b: first / last node, p, r: provider / receiver (or the vehicle twice)}
fn swap_desc(text: &str, node_ids: &std::collections::HashMap<String, String>) -> serde_json::Value {
    let w: Vec<&str> = text.split_whitespace().collect();
    let node = |t: &str| node_ids.get(t).cloned().unwrap_or_else(|| format!("?{}", t));
    let bad = || json!({"k": "??", "a": text, "b": "", "p": "", "r": ""});
    match w.first().copied() {
        Some("PathExchange") => {
            // PathExchange [a..b] from P[ (ty)] to R[ (ty)]
            let seg = w[1].trim_start_matches('[').trim_end_matches(']');
            let (a, b) = match seg.split_once("..") {
                Some((a, b)) => (a, b),
                None => (seg, seg),
            };
            let fi = w.iter().position(|&x| x == "from");
            let ti = w.iter().position(|&x| x == "to");
            match (fi, ti) {
                (Some(fi), Some(ti)) if fi + 1 < w.len() && ti + 1 < w.len() => {
                    json!({"k": "PE", "a": node(a), "b": node(b), "p": w[fi + 1], "r": w[ti + 1]})
                }
                _ => bad(),
            }
        }
        Some("SpawnVehicleForMaintenance") if w.len() >= 5 => {
            json!({"k": "SM", "a": node(w[1]), "b": node(w[1]), "p": w[4], "r": w[4]})
        }
        Some("AddTripForHitchHiking") if w.len() >= 4 => {
            json!({"k": "HH", "a": node(w[1]), "b": node(w[1]), "p": w[3], "r": w[3]})
        }
        Some("RemoveSingleNode") if w.len() >= 4 => {
            json!({"k": "RN", "a": node(w[1]), "b": node(w[1]), "p": w[3], "r": w[3]})
        }
        _ => bad(),
    }
}

/// the kind of swap behind a candidate, from the structural SwapInfo (not from any text)
fn swap_kind(c: &ScheduleWithInfo) -> &'static str {
    match c.get_last_swap_info() {
        SwapInfo::SpawnVehicleForMaintenance(_) => "SpawnVehicleForMaintenance",
        SwapInfo::PathExchange(_) => "PathExchange",
        SwapInfo::AddTripForHitchHiking(_) => "AddTripForHitchHiking",
        SwapInfo::RemoveSingleNode(_) => "RemoveSingleNode",
        SwapInfo::NoSwap => "NoSwap",
    }
}

fn run_cand(item: &serde_json::Value, out: &mut Out, max_cands: usize, call_stride: u64) {
    let name = item["name"].as_str().unwrap_or("?").to_string();
    let input = item["input"].clone();
    let steps = item["steps"].as_u64().unwrap_or(6);
    let mut rng = Rng(item["seed"].as_u64().unwrap_or(1) ^ 0x2545F4914F6CDD1D);
    out.emit(&json!({"ev": "begin", "name": name}));
    out.flush();
    let nw = match guarded(|| load_rolling_stock_problem_instance_from_json(input)) {
        Ok(nw) => nw,
        Err(msg) => {
            out.emit(&json!({"ev": "panic", "name": name, "msg": msg}));
            out.emit(&json!({"ev": "end", "name": name, "status": "panic"}));
            return;
        }
    };
    let mut base = match guarded(|| start_schedule(&nw)) {
        Ok(b) => b,
        Err(msg) => {
            out.emit(&json!({"ev": "panic", "name": name, "msg": msg}));
            out.emit(&json!({"ev": "end", "name": name, "status": "panic"}));
            return;
        }
    };
    let node_ids: std::collections::HashMap<String, String> =
        nw.all_nodes().map(|n| (n.to_string(), crate::netdump::nid(&nw, n))).collect();
    let neighborhood = RSSchedParallelNeighborhood::new(Some(Duration::new("3:00:00")), Some(Duration::new("0:10:00")), nw.clone());
    for _ in 0..steps {
        let before = solution::verif::project(base.get_schedule());
        let hb = digest(&before);
        out.emit(&json!({"ev": "base", "name": name, "S": before}));
        // hook H3: a sample of the inner modification calls of the swaps, as (pre, call, post) events
        solution::verif::enable();
        solution::verif::enable_calls(call_stride);
        let cands = guarded(|| neighborhood.neighbors_of(&base).collect::<Vec<ScheduleWithInfo>>());
        solution::verif::disable_calls();
        let inner = solution::verif::drain();
        solution::verif::disable();
        let _ = solution::verif::take_stage_schedules();
        for (k, e) in inner.iter().enumerate() {
            if k < 40 {
                out.emit_raw(&format!("{{\"ev\":\"inner\",\"name\":{},\"call\":{}}}", serde_json::Value::String(name.clone()), e));
            }
        }
        let ha = digest(&solution::verif::project(base.get_schedule()));
        match cands {
            Ok(cands) => {
                let n = cands.len();
                let stride = (n + max_cands - 1) / max_cands.max(1);
                let stride = stride.max(1);
                let offset = if stride > 1 { rng.below(stride) } else { 0 };
                let mut logged = 0;
                for (i, c) in cands.iter().enumerate() {
                    if i % stride != offset {
                        continue;
                    }
                    match guarded(|| solution::verif::project(c.get_schedule())) {
                        Ok(p) => out.emit(&json!({"ev": "cand", "name": name, "swap": c.get_print_text(),
                            "kind": swap_kind(c),
                            "sw": swap_desc(c.get_print_text(), &node_ids), "S": p})),
                        Err(m) => out.emit(&json!({"ev": "candfail", "name": name, "swap": c.get_print_text(), "msg": m})),
                    }
                    logged += 1;
                }
                // the whole neighbourhood as swap descriptors (the schedules themselves are sampled above)
                let all: Vec<serde_json::Value> = cands.iter().map(|c| swap_desc(c.get_print_text(), &node_ids)).collect();
                out.emit(&json!({"ev": "enum", "name": name, "ok": true, "panic": false, "n": n, "logged": logged,
                    "hb": hb, "ha": ha, "all": all}));
                if n == 0 {
                    break;
                }
                base = cands[rng.below(n)].clone();
            }
            Err(msg) => {
                out.emit(&json!({"ev": "enum", "name": name, "ok": false, "panic": true, "msg": msg, "n": 0, "logged": 0,
                    "hb": hb, "ha": ha, "all": []}));
                break;
            }
        }
        out.flush();
    }
    out.emit(&json!({"ev": "end", "name": name, "status": "ok"}));
    out.flush();
}

pub fn run(opts: &Opts) -> i32 {
    let inputs = read_lines(opts.req("in"));
    let mut out = Out::create(opts.req("out"));
    let mode = opts.get("mode").unwrap_or("fix").to_string();
    let skip = opts.num("skip", 0) as usize;
    let max_cands = opts.num("max-cands", 120) as usize;
    for item in inputs.iter().skip(skip) {
        if mode == "fix" {
            run_fix(item, &mut out);
        } else {
            run_cand(item, &mut out, max_cands, opts.num("call-stride", 97));
        }
    }
    0
}
