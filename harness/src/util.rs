use std::collections::HashMap;
use std::fs::File;
use std::io::{BufRead, BufReader, BufWriter, Write};
use std::panic::{catch_unwind, AssertUnwindSafe};
use std::sync::Mutex;

use model::base_types::{Distance, Location};
use model::network::Network;
use rapid_time::{DateTime, Duration};
use serde_json::Value;

pub struct Opts {
    map: HashMap<String, String>,
}

impl Opts {
    pub fn parse(args: &[String]) -> Opts {
        let mut map = HashMap::new();
        let mut i = 0;
        while i < args.len() {
            let k = args[i].trim_start_matches("--").to_string();
            if i + 1 < args.len() && !args[i + 1].starts_with("--") {
                map.insert(k, args[i + 1].clone());
                i += 2;
            } else {
                map.insert(k, String::from("1"));
                i += 1;
            }
        }
        Opts { map }
    }
    pub fn get(&self, k: &str) -> Option<&str> {
        self.map.get(k).map(|s| s.as_str())
    }
    pub fn req(&self, k: &str) -> &str {
        self.get(k).unwrap_or_else(|| {
            eprintln!("missing option --{}", k);
            std::process::exit(2)
        })
    }
    pub fn num(&self, k: &str, default: u64) -> u64 {
        self.get(k).map(|s| s.parse().unwrap()).unwrap_or(default)
    }
}

static LAST_PANIC: Mutex<String> = Mutex::new(String::new());

pub fn install_panic_hook() {
    std::panic::set_hook(Box::new(|info| {
        let msg = if let Some(s) = info.payload().downcast_ref::<&str>() {
            s.to_string()
        } else if let Some(s) = info.payload().downcast_ref::<String>() {
            s.clone()
        } else {
            String::from("<non-string panic>")
        };
        let loc = info
            .location()
            .map(|l| format!("{}:{}", l.file(), l.line()))
            .unwrap_or_default();
        let mut g = LAST_PANIC.lock().unwrap_or_else(|e| e.into_inner());
        // keep the first panic of a cascade (rayon re-raises)
        if g.is_empty() {
            *g = format!("{} @ {}", msg, loc);
        }
    }));
}

/// Run f, turning a panic into Err(message @ file:line).
pub fn guarded<T>(f: impl FnOnce() -> T) -> Result<T, String> {
    LAST_PANIC
        .lock()
        .unwrap_or_else(|e| e.into_inner())
        .clear();
    match catch_unwind(AssertUnwindSafe(f)) {
        Ok(v) => Ok(v),
        Err(_) => {
            let mut g = LAST_PANIC.lock().unwrap_or_else(|e| e.into_inner());
            let m = std::mem::take(&mut *g);
            Err(shorten_panic(&m))
        }
    }
}

fn shorten_panic(m: &str) -> String {
    // strip the registry / repo prefix of file paths to make messages stable
    let mut s = m.replace("/repo/", "");
    if let Some(p) = s.find(".cargo/registry/src/") {
        if let Some(q) = s[p..].find('/').map(|x| x + p) {
            let _ = q;
        }
    }
    if s.len() > 400 {
        s.truncate(400);
    }
    s
}

pub fn read_lines(path: &str) -> Vec<Value> {
    let f = File::open(path).unwrap_or_else(|e| {
        eprintln!("cannot open {}: {}", path, e);
        std::process::exit(2)
    });
    BufReader::new(f)
        .lines()
        .map(|l| l.unwrap())
        .filter(|l| !l.trim().is_empty())
        .map(|l| serde_json::from_str(&l).expect("bad json line"))
        .collect()
}

pub struct Out {
    w: BufWriter<File>,
}

impl Out {
    pub fn create(path: &str) -> Out {
        Out {
            w: BufWriter::new(File::create(path).expect("cannot create output")),
        }
    }
    pub fn emit(&mut self, v: &Value) {
        writeln!(self.w, "{}", v).unwrap();
    }
    pub fn emit_raw(&mut self, s: &str) {
        writeln!(self.w, "{}", s).unwrap();
    }
    pub fn flush(&mut self) {
        self.w.flush().unwrap();
    }
}

pub fn dist_i(d: Distance) -> i64 {
    d.in_meter().map(|m| m as i64).unwrap_or(-1)
}

pub fn dur_i(d: Duration) -> i64 {
    d.in_sec().map(|s| s as i64).unwrap_or(-1)
}

pub fn time_s(t: DateTime) -> String {
    t.as_iso()
}

pub fn loc_s(nw: &Network, l: Location) -> String {
    nw.locations().get_id(l).unwrap()
}

/// splitmix64: small deterministic PRNG (no external crate needed)
pub struct Rng(pub u64);

impl Rng {
    pub fn next(&mut self) -> u64 {
        self.0 = self.0.wrapping_add(0x9E3779B97F4A7C15);
        let mut z = self.0;
        z = (z ^ (z >> 30)).wrapping_mul(0xBF58476D1CE4E5B9);
        z = (z ^ (z >> 27)).wrapping_mul(0x94D049BB133111EB);
        z ^ (z >> 31)
    }
    pub fn below(&mut self, n: usize) -> usize {
        if n == 0 {
            0
        } else {
            (self.next() % n as u64) as usize
        }
    }
    pub fn chance(&mut self, num: u64, den: u64) -> bool {
        self.next() % den < num
    }
    pub fn pick<'a, T>(&mut self, v: &'a [T]) -> Option<&'a T> {
        if v.is_empty() {
            None
        } else {
            Some(&v[self.below(v.len())])
        }
    }
}
