----------------------------- MODULE TraceTrans -----------------------------
(***************************************************************************)
(* Trace validation for C15: the real Transition, driven through the       *)
(* histories emitted by MC_Transition, must (a) satisfy TransInv in every  *)
(* observed state (counters recomputed from the tours by Tour.tla) and     *)
(* (b) be exactly the state the model predicts (cycles, cached counters,   *)
(* totals, stack of reusable cycles, successor probe).                     *)
(* Events: line 1 pool{I, veh}; tr{case, stage, ok, panic, obs, base, op}  *)
(***************************************************************************)
EXTENDS Tour, Json, IOUtils

Rec == ndJsonDeserialize(IOEnv.TRACE)
Pool == Rec[1]
NP == TLCEval(BuildNet(Pool.I))
PoolVehM == {Pool.veh[i].id : i \in DOMAIN Pool.veh}
VRec(v) == CHOOSE r \in Range1(Pool.veh) : r.id = v
NAltsM(v) == Len(VRec(v).alts)
AttrTab == TLCEval([v \in PoolVehM |->
              [k \in 1..NAltsM(v) |->
                 LET t == VRec(v).alts[k]
                 IN [mc |-> MaintCounter(NP, t), sd |-> NP.nd[t[1]].depot, ed |-> NP.nd[Last(t)].depot]]])
AttrM(v, k) == AttrTab[v][k]
DDTab == TLCEval([p \in (DOMAIN NP.depots) \X (DOMAIN NP.depots) |->
            LET d == DhDist(NP, NP.depots[p[1]].loc, NP.depots[p[2]].loc) IN IF d = INF THEN InfDistance ELSE d])
DDM(e, s) == DDTab[<<e, s>>]

VARIABLES l, hist
Tr == INSTANCE Transition WITH T <- l, PoolVeh <- PoolVehM, NAlts <- NAltsM, Attr <- AttrM, DD <- DDM,
                               MaxCycles <- 100, MaxHist <- 0

Init == l \in DOMAIN Rec /\ hist = << >>
Next == UNCHANGED <<l, hist>>

E == Rec[l]
IsTr == E.ev = "tr"
HasObs == IsTr /\ E.ok

CurFn(obs) == [v \in {obs.cur[i].v : i \in DOMAIN obs.cur} |-> (CHOOSE e \in Range1(obs.cur) : e.v = v).k]
ProbeIdx(obs) == [i \in DOMAIN obs.probe |-> obs.probe[i].idx]
\* the observed transition as a model state (lookup is private: derived, checked through succ)
ObsT(obs) ==
  [ cycles |-> obs.cyc, counter |-> obs.c,
    lookup |-> [v \in DOMAIN CurFn(obs) |-> CHOOSE c \in DOMAIN obs.cyc : \E i \in DOMAIN obs.cyc[c] : obs.cyc[c][i] = v],
    empty |-> Reverse(SubSeq(ProbeIdx(obs), 1, Len(obs.probe) - 1)),
    totViol |-> obs.viol, totCnt |-> obs.cnt, cur |-> CurFn(obs) ]

P_C15_nopanic == IsTr => ~E.panic
\* every present vehicle is in some cycle (so that ObsT is defined)
Covered(obs) == \A v \in DOMAIN CurFn(obs) : \E c \in DOMAIN obs.cyc : \E i \in DOMAIN obs.cyc[c] : obs.cyc[c][i] = v
P_C15_partition == HasObs => Covered(E.obs)
\* partition, empty list, counters and totals recomputed from the tours
P_C15_inv == (HasObs /\ Covered(E.obs)) => Tr!TransInvOf(ObsT(E.obs))
\* vehicle-to-cycle lookup: the successor probe agrees with the cycles
P_C15_lookup == HasObs =>
   \A e \in Range1(E.obs.succ) :
      \E c \in DOMAIN E.obs.cyc : \E i \in DOMAIN E.obs.cyc[c] :
         E.obs.cyc[c][i] = e.v /\ e.s = E.obs.cyc[c][(i % Len(E.obs.cyc[c])) + 1]
\* reusable cycles: the probe first refills the emptied cycles (most recent first) and only then
\* appends; no vehicle is lost while doing so
P_C15_empty == HasObs =>
   /\ \A i \in DOMAIN E.obs.probe : E.obs.probe[i].members = Cardinality(DOMAIN CurFn(E.obs)) + i
   /\ ProbeIdx(E.obs)[Len(E.obs.probe)] = E.obs.ncyc + 1
\* the implementation is in exactly the state the model predicts
Predicted == IF E.stage = "hist" THEN E.base ELSE Tr!Apply(E.base, E.op)
ModelT(t) == [cycles |-> t.cycles, counter |-> t.counter, empty |-> t.empty, totViol |-> t.totViol,
              totCnt |-> t.totCnt, cur |-> t.cur]
P_C15_model == (HasObs /\ Covered(E.obs)) => ModelT(ObsT(E.obs)) = ModelT(Predicted)
=============================================================================
