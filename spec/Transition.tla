----------------------------- MODULE Transition -----------------------------
(***************************************************************************)
(* The rotation-cycle bookkeeping of one vehicle type (C15), *with* its    *)
(* caches as variables and the delta formulas as the implementation        *)
(* documents them (solution/src/transition/*.rs):                          *)
(*                                                                         *)
(*   cycles   sequence of cycles (sequences of vehicles); an emptied cycle *)
(*            keeps its index                                              *)
(*   counter  per cycle: cached maintenance counter                        *)
(*   lookup   vehicle -> index of its cycle                                *)
(*   empty    stack of reusable (empty) cycle indices                      *)
(*   totViol, totCnt   cached totals                                       *)
(*   cur      vehicle -> which of its alternative tours it currently runs  *)
(*                                                                         *)
(* The model is instantiated with a pool of vehicles and alternative tours *)
(* (attributes: tour counter mc, start depot sd, end depot ed) and a depot *)
(* distance DD(e, s).  TLC checks that the delta formulas preserve         *)
(* TransInv (every cached figure equals its recomputed value, partition,   *)
(* lookup, empty list) for all operation sequences, and emits the explored *)
(* histories for replay on the real Transition.                            *)
(***************************************************************************)
EXTENDS Naturals, Integers, Sequences, FiniteSets, TLC, SequencesExt, FiniteSetsExt, Functions

CONSTANTS PoolVeh,          \* set of vehicle ids
          NAlts(_),         \* number of alternative tours of a vehicle
          Attr(_, _),       \* Attr(v, k) = [mc, sd, ed] of alternative k of vehicle v
          DD(_, _),         \* DD(endDepot, startDepot): transfer distance (10^7 if infinite)
          MaxCycles, MaxHist

VARIABLES T, hist      \* T = [cycles, counter, lookup, empty, totViol, totCnt, cur]
vars == <<T, hist>>
view == T

PosT(a) == IF a > 0 THEN a ELSE 0
Present(t) == DOMAIN t.lookup
A(t, v) == Attr(v, t.cur[v])
SSum(s) == FoldLeft(LAMBDA acc, x : acc + x, 0, s)
IdxOf(s, x) == CHOOSE i \in DOMAIN s : s[i] = x

(* ---------------- from-scratch definitions ---------------- *)
CycleCounterOf(cyc, at(_)) ==
  IF cyc = << >> THEN 0
  ELSE SSum([i \in DOMAIN cyc |-> at(cyc[i]).mc])
     + SSum([i \in DOMAIN cyc |-> DD(at(cyc[i]).ed, at(cyc[(i % Len(cyc)) + 1]).sd)])

TransInvOf(t) ==
  LET at(v) == A(t, v)
      flat  == FoldLeft(LAMBDA acc, c : acc \o c, << >>, t.cycles)
  IN \* each present vehicle is in exactly one cycle, exactly once
     /\ \A i, j \in DOMAIN flat : i # j => flat[i] # flat[j]
     /\ {flat[i] : i \in DOMAIN flat} = Present(t)
     \* the lookup points to the vehicle's cycle
     /\ \A v \in Present(t) : /\ t.lookup[v] \in DOMAIN t.cycles
                              /\ \E i \in DOMAIN t.cycles[t.lookup[v]] : t.cycles[t.lookup[v]][i] = v
     \* the reusable indices are exactly the empty cycles, each listed once
     /\ \A i, j \in DOMAIN t.empty : i # j => t.empty[i] # t.empty[j]
     /\ {t.empty[i] : i \in DOMAIN t.empty} = {c \in DOMAIN t.cycles : t.cycles[c] = << >>}
     \* cached counters and totals equal recomputation
     /\ Len(t.counter) = Len(t.cycles)
     /\ \A c \in DOMAIN t.cycles : t.counter[c] = CycleCounterOf(t.cycles[c], at)
     /\ t.totViol = SSum([c \in DOMAIN t.cycles |-> PosT(CycleCounterOf(t.cycles[c], at))])
     /\ t.totCnt = SSum([c \in DOMAIN t.cycles |-> CycleCounterOf(t.cycles[c], at)])
TransInv == TransInvOf(T)

(* ---------------- the operations, with the documented delta formulas ---------------- *)
EmptyT == [cycles |-> << >>, counter |-> << >>, lookup |-> << >>, empty |-> << >>,
           totViol |-> 0, totCnt |-> 0, cur |-> << >>]

SetCycle(t, c, vec, cnt) ==
  [t EXCEPT !.cycles[c] = vec, !.counter[c] = cnt,
            !.totViol = t.totViol + PosT(cnt) - PosT(t.counter[c]),
            !.totCnt = t.totCnt + cnt - t.counter[c]]

PredOf(t, v) == LET c == t.cycles[t.lookup[v]] k == IdxOf(c, v) IN IF k = 1 THEN c[Len(c)] ELSE c[k - 1]
SuccOf(t, v) == LET c == t.cycles[t.lookup[v]] k == IdxOf(c, v) IN IF k = Len(c) THEN c[1] ELSE c[k + 1]
WithNeighbours(a, pe, ss) == a.mc + DD(pe, a.sd) + DD(a.ed, ss)

\* update_vehicle(v, new tour k)
UpdatePre(t, v, k) == v \in Present(t) /\ k \in 1..NAlts(v) /\ k # t.cur[v]
UpdateF(t, v, k) ==
  LET c   == t.lookup[v]
      new == Attr(v, k)
      cnt == IF Len(t.cycles[c]) = 1 THEN new.mc + DD(new.ed, new.sd)
             ELSE t.counter[c] - WithNeighbours(A(t, v), A(t, PredOf(t, v)).ed, A(t, SuccOf(t, v)).sd)
                               + WithNeighbours(new, A(t, PredOf(t, v)).ed, A(t, SuccOf(t, v)).sd)
  IN [SetCycle(t, c, t.cycles[c], cnt) EXCEPT !.cur[v] = k]

\* add_vehicle_to_own_cycle(v, tour k): reuses the most recently emptied cycle, else appends
AddOwnPre(t, v, k) == v \notin Present(t) /\ k \in 1..NAlts(v) /\ (t.empty = << >> => Len(t.cycles) < MaxCycles)
AddOwnF(t, v, k) ==
  LET a   == Attr(v, k)
      cnt == a.mc + DD(a.ed, a.sd)
      t1  == [t EXCEPT !.totViol = t.totViol + PosT(cnt), !.totCnt = t.totCnt + cnt,
                       !.cur = (v :> k) @@ t.cur]
  IN IF t.empty = << >>
       THEN [t1 EXCEPT !.cycles = Append(t.cycles, <<v>>), !.counter = Append(t.counter, cnt),
                       !.lookup = (v :> Len(t.cycles) + 1) @@ t.lookup]
       ELSE LET c == t.empty[Len(t.empty)]
            IN [t1 EXCEPT !.cycles[c] = <<v>>, !.counter[c] = cnt, !.lookup = (v :> c) @@ t.lookup,
                          !.empty = SubSeq(t.empty, 1, Len(t.empty) - 1)]

\* remove_vehicle(v)
RemovePre(t, v) == v \in Present(t)
RemoveF(t, v) ==
  LET c   == t.lookup[v]
      vec == SelectSeq(t.cycles[c], LAMBDA x : x # v)
      cnt == IF vec = << >> THEN 0
             ELSE t.counter[c] - WithNeighbours(A(t, v), A(t, PredOf(t, v)).ed, A(t, SuccOf(t, v)).sd)
                               + DD(A(t, PredOf(t, v)).ed, A(t, SuccOf(t, v)).sd)
      t1  == SetCycle(t, c, vec, cnt)
  IN [t1 EXCEPT !.empty = IF vec = << >> THEN Append(t.empty, c) ELSE t.empty,
                !.lookup = [x \in Present(t) \ {v} |-> t.lookup[x]],
                !.cur = [x \in Present(t) \ {v} |-> t.cur[x]]]

\* add_vehicle_at_the_end(v, c) with tour k
AddAtEndPre(t, v, k, c) == v \notin Present(t) /\ k \in 1..NAlts(v) /\ c \in DOMAIN t.cycles
AddAtEndF(t, v, k, c) ==
  LET a   == Attr(v, k)
      old == t.cycles[c]
      cnt == IF old = << >> THEN a.mc + DD(a.ed, a.sd)
             ELSE LET pe == A(t, old[Len(old)]).ed
                      ss == A(t, old[1]).sd
                  IN t.counter[c] - DD(pe, ss) + WithNeighbours(a, pe, ss)
      t1  == SetCycle(t, c, Append(old, v), cnt)
  IN [t1 EXCEPT !.empty = IF old = << >> THEN SelectSeq(t.empty, LAMBDA x : x # c) ELSE t.empty,
                !.lookup = (v :> c) @@ t.lookup,
                !.cur = (v :> k) @@ t.cur]

\* move_vehicle(v, c) = remove_vehicle . add_vehicle_at_the_end
MovePre(t, v, c) == v \in Present(t) /\ c \in DOMAIN t.cycles
MoveF(t, v, c) == AddAtEndF(RemoveF(t, v), v, t.cur[v], c)

\* TransitionCycle::three_opt(i, j, k) (0-based i < j < k) followed by replace_cycle
ThreeOptPre(t, c, i, j, k) ==
  c \in DOMAIN t.cycles /\ Len(t.cycles[c]) >= 3 /\ 0 <= i /\ i < j /\ j < k /\ k < Len(t.cycles[c])
ThreeOptF(t, c, i, j, k) ==
  LET cy == t.cycles[c]
      n  == Len(cy)
      at(p) == A(t, cy[(p % n) + 1])          \* vehicle at 0-based position p (mod n)
      cnt == t.counter[c]
             - DD(at(i).ed, at(i + 1).sd) - DD(at(j).ed, at(j + 1).sd) - DD(at(k).ed, at(k + 1).sd)
             + DD(at(i).ed, at(j + 1).sd) + DD(at(j).ed, at(k + 1).sd) + DD(at(k).ed, at(i + 1).sd)
      vec == SubSeq(cy, 1, i + 1) \o SubSeq(cy, j + 2, k + 1) \o SubSeq(cy, i + 2, j + 1) \o SubSeq(cy, k + 2, n)
  IN SetCycle(t, c, vec, cnt)

Op(name, args) == [op |-> name, args |-> args]
Enabled(t, o) ==
  CASE o.op = "update" -> UpdatePre(t, o.args[1], o.args[2])
    [] o.op = "add_own" -> AddOwnPre(t, o.args[1], o.args[2])
    [] o.op = "remove" -> RemovePre(t, o.args[1])
    [] o.op = "add_end" -> AddAtEndPre(t, o.args[1], o.args[2], o.args[3])
    [] o.op = "move" -> MovePre(t, o.args[1], o.args[2])
    [] o.op = "three_opt" -> ThreeOptPre(t, o.args[1], o.args[2], o.args[3], o.args[4])
Apply(t, o) ==
  CASE o.op = "update" -> UpdateF(t, o.args[1], o.args[2])
    [] o.op = "add_own" -> AddOwnF(t, o.args[1], o.args[2])
    [] o.op = "remove" -> RemoveF(t, o.args[1])
    [] o.op = "add_end" -> AddAtEndF(t, o.args[1], o.args[2], o.args[3])
    [] o.op = "move" -> MoveF(t, o.args[1], o.args[2])
    [] o.op = "three_opt" -> ThreeOptF(t, o.args[1], o.args[2], o.args[3], o.args[4])

AllOps ==
     {Op("update", <<v, k>>) : v \in PoolVeh, k \in 1..2}
  \cup {Op("add_own", <<v, k>>) : v \in PoolVeh, k \in 1..2}
  \cup {Op("remove", <<v>>) : v \in PoolVeh}
  \cup {Op("add_end", <<v, k, c>>) : v \in PoolVeh, k \in 1..2, c \in 1..MaxCycles}
  \cup {Op("move", <<v, c>>) : v \in PoolVeh, c \in 1..MaxCycles}
  \cup {Op("three_opt", <<c, i, j, k>>) : c \in 1..MaxCycles, i \in 0..1, j \in 1..2, k \in 2..3}
EnabledOps(t) == {o \in AllOps : Enabled(t, o)}

Init == T = EmptyT /\ hist = << >>
Next == /\ Len(hist) < MaxHist
        /\ \E o \in EnabledOps(T) : T' = Apply(T, o) /\ hist' = Append(hist, o)
Spec == Init /\ [][Next]_vars
=============================================================================
