----------------------------- MODULE TracePipe -----------------------------
(***************************************************************************)
(* Trace validation of the solve pipeline (C01-C08, C16, C09 on stage      *)
(* snapshots).  Events, one per line (li = line of the `load` event of the *)
(* instance, pi = line of the preceding stage snapshot of the same solve,  *)
(* 0 if none):                                                             *)
(*   load{I}   stage{li,pi,label,S}   output{li,fi,O}                      *)
(*   summary{li,mcf,start,ls,transopt,final,out,nsteps}   end{li,status}   *)
(* Every event is one state; TLC evaluates each invariant on all of them.  *)
(***************************************************************************)
EXTENDS Output, Circulation, Json, IOUtils

Rec == ndJsonDeserialize(IOEnv.TRACE)
LoadIdx == {i \in DOMAIN Rec : Rec[i].ev = "load"}
Nets == TLCEval([i \in LoadIdx |-> BuildNet(Rec[i].I)])

VARIABLE l
Init == l \in DOMAIN Rec
Next == l < Len(Rec) /\ l' = l + 1

E == Rec[l]
NetE == Nets[E.li]
IsOut == E.ev = "output"
IsStage == E.ev = "stage"
IsSummary == E.ev = "summary"

(* ---------------- output properties ---------------- *)
P_C01 == IsOut => OutFeasible(NetE, E.O)
P_C02_formation == IsOut => FormationLimitsOK(NetE, E.O)
P_C02_tracks == IsOut => TrackLimitsOK(NetE, E.O)
P_C02_depots == IsOut => DepotLimitsOK(NetE, E.O)
P_C03_complete == IsOut => OutComplete(NetE, E.O)
P_C03_views == IsOut => (WellFormed(NetE, E.O) /\ ViewsAgree(NetE, E.O))
P_C03_loads == IsOut => DepotLoadsOK(NetE, E.O)
P_C03_deadheads == IsOut => DeadHeadsOK(NetE, E.O)
P_C04_unserved == (IsOut /\ WellFormed(NetE, E.O)) => E.O.obj.unserved = OutUnserved(NetE, E.O)
P_C04_vehicles == IsOut => E.O.obj.nveh = OutVehicleCount(E.O)
P_C04_costs == (IsOut /\ WellFormed(NetE, E.O)) => E.O.obj.costs = OutCosts(NetE, E.O)
P_C04_violation == (IsOut /\ WellFormed(NetE, E.O)) => E.O.obj.viol = OutViolation(NetE, E.O)
P_C05_partition == IsOut => CyclesPartition(E.O)
P_C05_aligned == IsOut => CyclesAligned(E.O)
P_C05_balance == IsOut => DepotsBalanced(NetE, E.O)
P_C07_coverage == IsOut => CoverageOK(NetE, E.O)

(* ---------------- termination with an answer ---------------- *)
\* The pipeline machine (Pipeline.tla) has no action for a panic, abort or timeout: a solve
\* of a valid instance must end with status "ok" after an output event.
P_C06 == E.ev = "end" => E.status = "ok"

(* ---------------- stage snapshots ---------------- *)
P_stage_inv == IsStage => SchedInv(NetE, E.S)
P_stage_caches_tour == IsStage => AllTourCachesOK(NetE, E.S)
P_stage_caches_sched == IsStage => ScheduleCachesOK(NetE, E.S)
P_stage_caches_viol == IsStage => ViolationCacheOK(NetE, E.S)
P_stage_caches_trans == IsStage => TransitionCachesOK(NetE, E.S)
P_stage_caches_depot == IsStage => DepotCachesOK(NetE, E.S)

Unserved(N, S) == UnservedP(N, S) + UnservedS(N, S)
\* no later stage gives up covered demand
P_C07_mono == (IsStage /\ E.pi > 0) => Unserved(NetE, E.S) <= Unserved(NetE, Rec[E.pi].S)
P_C07_start == (IsStage /\ E.label = "start") => Unserved(NetE, E.S) = LowerBoundUnserved(NetE)

\* C08: every accepted step strictly improves the recomputed objective lexicographically
P_C08_descent == (IsStage /\ E.label = "ls_step") =>
   LexLess(Objective(NetE, E.S), Objective(NetE, Rec[E.pi].S))
\* the search result is its last accepted step (the start if none) and never worse than the start
P_C08_result == (IsSummary /\ E.ls > 0) =>
   /\ LexLeq(Objective(NetE, Rec[E.ls].S), Objective(NetE, Rec[E.start].S))
   /\ Rec[E.ls].S = Rec[Rec[E.ls].pi].S

\* the search stops only at a fixpoint: run again on its own result it accepts no step and
\* returns the same schedule
P_C08_fix == E.ev = "rerun" => (E.nsteps = 0 /\ E.S = Rec[E.pi].S)

(* ---------------- C11: every local-search candidate ---------------- *)
IsCand == E.ev = "cand"
P_C11_inv == IsCand => SchedInv(NetE, E.S)
P_C11_caches == IsCand => CachesOK(NetE, E.S)
\* generating the candidates does not panic and leaves the base schedule observably unchanged
P_C11_enum == E.ev = "enum" => (E.ok /\ ~E.panic /\ E.hb = E.ha)
P_C11_project == E.ev # "candfail"

(* ---------------- C14: the start solution is an optimum of the covering circulation ---------------- *)
\* only for instances whose depot totals do not couple the vehicle types (load event: dec = TRUE)
IsMcf == IsStage /\ E.label = "mcf" /\ Rec[E.li].dec
P_C14_feasible == IsMcf => \A ty \in NetE.types : CoverFeasible(NetE, E.S, ty) /\ FlowWithinNetwork(NetE, E.S, ty)
P_C14_optimal == IsMcf => \A ty \in NetE.types :
   (CoverFeasible(NetE, E.S, ty) /\ FlowWithinNetwork(NetE, E.S, ty)) => CoverOptimal(NetE, E.S, ty)
\* every flow unit is decoded into exactly one tour: formations are exactly the tours through a node
P_C14_decoded == IsMcf => (ToursOK(NetE, E.S) /\ FormationsOK(NetE, E.S))

(* ---------------- C16: the answer is the product of all stages ---------------- *)
SameActs(N, A, B) == VehIds(A) = VehIds(B) /\ ActsOfVeh(N, A) = ActsOfVeh(N, B) /\ TypeMap(A) = TypeMap(B)
SameTours(A, B) == TourMap(A) = TourMap(B) /\ TypeMap(A) = TypeMap(B)
P_C16_start == (IsSummary /\ E.start > 0 /\ E.mcf > 0) =>
   SameActs(NetE, Rec[E.start].S, Rec[E.mcf].S) /\ FormMap(Rec[E.start].S) = FormMap(Rec[E.mcf].S)
P_C16_transopt == (IsSummary /\ E.transopt > 0 /\ E.ls > 0) =>
   /\ SameTours(Rec[E.transopt].S, Rec[E.ls].S)
   /\ FormMap(Rec[E.transopt].S) = FormMap(Rec[E.ls].S)
\* the final schedule carries exactly the optimiser's cycles ...
P_C16_cycles == (IsSummary /\ E.final > 0 /\ E.transopt > 0) =>
   CycleSets(Rec[E.final].S) = CycleSets(Rec[E.transopt].S)
\* ... and exactly the local-search result's activities and start depots; only end depots move,
\* each to the depot where the successor in the cycle starts
P_C16_final == (IsSummary /\ E.final > 0 /\ E.ls > 0) =>
   LET F == Rec[E.final].S
       L == Rec[E.ls].S
   IN /\ SameActs(NetE, F, L) /\ FormMap(F) = FormMap(L)
      /\ \A v \in Range1(F.veh) : v.n[1] = TourMap(L)[v.id][1]
      \* (the successor is read off the cycles themselves, not asked from the implementation)
      /\ \A t \in Range1(F.tr) : \A c \in Range1(t.cyc) : \A k \in DOMAIN c.v :
            EndDepotOf(NetE, VehRec(F, c.v[k])) = StartDepotOf(NetE, VehRec(F, c.v[(k % Len(c.v)) + 1]))
\* the answer is the projection of the final schedule
P_C16_output == (IsSummary /\ E.out > 0 /\ E.final > 0) =>
   LET F == Rec[E.final].S
       O == Rec[E.out].O
   IN /\ {v.id : v \in Vehicles(O)} = VehIds(F)
      /\ \A v \in Vehicles(O) : (KnownDepots(NetE, v) /\ KnownActs(NetE, v)) =>
            /\ TourOf(NetE, v) = TourMap(F)[v.id]
            /\ TypeOfVeh(O, v) = TypeMap(F)[v.id]
      /\ \A i \in DOMAIN O.fleet :
            {c \in Range1(O.fleet[i].cycles) : c # << >>} = CycleSets(F)[O.fleet[i].ty]
      /\ \A s \in Range1(O.segs) : s.form = FormMap(F)[s.id]
      /\ \A s \in Range1(O.slots) : s.form = FormMap(F)[s.id]
      /\ <<O.obj.unserved, O.obj.viol, O.obj.nveh, O.obj.costs>> = CachedObjective(F)
\* C15: the transition optimisation returns cycles over the same vehicles whose violation, then
\* counter, is not worse than what it was given (both recomputed from tours and cycles)
TypeCounter(N, S, ty) == CounterTotal(N, TourMap(S), CyclesOf(S, ty))
P_C15_opt == (IsSummary /\ E.transopt > 0 /\ E.ls > 0) =>
   LET A == Rec[E.ls].S
       B == Rec[E.transopt].S
   IN \A t \in Range1(B.tr) :
         /\ VehOfType(B, t.ty) = VehOfType(A, t.ty)
         /\ Range1(FoldLeft(LAMBDA acc, c : acc \o c.v, << >>, t.cyc)) = VehOfType(A, t.ty)
         /\ LexLeq(<<TypeViolation(NetE, B, t.ty), TypeCounter(NetE, B, t.ty)>>,
                   <<TypeViolation(NetE, A, t.ty), TypeCounter(NetE, A, t.ty)>>)
\* the cycles the pipeline carries after the transition optimisation are the optimiser's own
\* choice, i.e. a local optimum of it: the real optimiser re-run on that schedule finds nothing
\* better (violation, then counter; both recomputed from the tours of the transopt snapshot)
\* hook H4 records the cycles the optimiser returned for each type: the transopt snapshot carries exactly those
P_C16_chosen == (E.ev = "optres" /\ E.pi > 0) =>
   /\ {x.ty : x \in Range1(E.tr)} = NetE.types
   /\ \A x \in Range1(E.tr) : CycleSets(Rec[E.pi].S)[x.ty] = {c \in Range1(x.cyc) : c # << >>}
P_C16_optfix == (E.ev = "optrerun" /\ E.pi > 0) =>
   /\ E.ok
   /\ LET S == Rec[E.pi].S
      IN \A t \in Range1(E.tr) :
            LET cs == [i \in DOMAIN t.cyc |-> t.cyc[i]]
            IN ~LexLess(<<Violation(NetE, TourMap(S), cs), CounterTotal(NetE, TourMap(S), cs)>>,
                        <<TypeViolation(NetE, S, t.ty), TypeCounter(NetE, S, t.ty)>>)
\* all stages were observed (no stage silently skipped)
P_C16_stages == IsSummary => (E.mcf > 0 /\ E.start > 0 /\ E.ls > 0 /\ E.transopt > 0 /\ E.final > 0 /\ E.out > 0)
=============================================================================
