------------------------------ MODULE TraceNet ------------------------------
(***************************************************************************)
(* Trace validation for C17: every `net` event (the public getters of the  *)
(* Network the implementation loaded from the rendered instance) must      *)
(* agree with the reference network derived from the abstract instance of  *)
(* the preceding `load` event.                                             *)
(*                                                                         *)
(* Every observed event is one state (l = its line number); the events are *)
(* self-describing (`li` = line of the instance they belong to), so TLC    *)
(* evaluates the invariants on all of them independently.                  *)
(***************************************************************************)
EXTENDS Net, Json, IOUtils

Rec == ndJsonDeserialize(IOEnv.TRACE)
LoadIdx == {i \in DOMAIN Rec : Rec[i].ev = "load"}
Nets == TLCEval([i \in LoadIdx |-> BuildNet(Rec[i].I)])

VARIABLE l
Init == l \in DOMAIN Rec
Next == l < Len(Rec) /\ l' = l + 1
Spec == Init /\ [][Next]_l

IsNet(e) == e.ev = "net"

\* a valid instance loads (no panic) ...
P_C17_loads == IsNet(Rec[l]) => Rec[l].ok
\* ... and the loaded network is the reference network
P_C17_nodes == (IsNet(Rec[l]) /\ Rec[l].ok) =>
   LET N == Nets[Rec[l].li] IN NodesOK(N, Rec[l].obs) /\ ListingsOK(N, Rec[l].obs) /\ ConfigOK(N, Rec[l].obs)
P_C17_limits == (IsNet(Rec[l]) /\ Rec[l].ok) => NetLimitsOK(Nets[Rec[l].li], Rec[l].obs)
P_C17_depots == (IsNet(Rec[l]) /\ Rec[l].ok) => DepotsOK(Nets[Rec[l].li], Rec[l].obs)
P_C17_overflow == (IsNet(Rec[l]) /\ Rec[l].ok) => OverflowOK(Nets[Rec[l].li], Rec[l].obs)
P_C17_deadheads == (IsNet(Rec[l]) /\ Rec[l].ok) =>
   LET N == Nets[Rec[l].li] IN DeadHeadsObsOK(N, Rec[l].obs) /\ MinDurOK(N, Rec[l].obs)
P_C17_reach == (IsNet(Rec[l]) /\ Rec[l].ok) => ReachOK(Nets[Rec[l].li], Rec[l].obs)
P_C17_succ == (IsNet(Rec[l]) /\ Rec[l].ok) => SuccOK(Nets[Rec[l].li], Rec[l].obs)
P_C17_pred == (IsNet(Rec[l]) /\ Rec[l].ok) => PredOK(Nets[Rec[l].li], Rec[l].obs)

\* anti-vacuity: the whole trace was consumed
AllConsumed == TLCGet("distinct") = Len(Rec)
=============================================================================
