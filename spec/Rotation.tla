------------------------------ MODULE Rotation ------------------------------
(***************************************************************************)
(* Transition::new_fast (one_cluster_per_maintenance) as a function: the   *)
(* greedy construction of rotation cycles that recompute_transitions_for   *)
(* and improve_depots(None) perform.                                       *)
(*                                                                         *)
(* Tours with a negative maintenance counter (they visit a slot and stay   *)
(* below the allowance) seed one cluster each; the others are appended, in *)
(* descending counter order, to the first cluster (in the current order)   *)
(* that stays <= 0 with them, else to the last cluster, else they open a   *)
(* cluster.  Named deviation kept from the code: the clusters are sorted   *)
(* descending by counter before the loop and ASCENDING after every step.   *)
(* All sorts are stable (ties keep the listing order of the vehicles).     *)
(***************************************************************************)
EXTENDS Tour

\* stable sort of a sequence by an integer key
StableSortBy(s, K(_)) ==
  LET n == Len(s)
      Rank(i) == Cardinality({j \in 1..n : K(s[j]) < K(s[i]) \/ (K(s[j]) = K(s[i]) /\ j < i)}) + 1
  IN [r \in 1..n |-> s[CHOOSE i \in 1..n : Rank(i) = r]]

\* vehicles: the type's vehicles in listing order; tourOf: vehicle -> real tour
NewFast(N, tourOf, vehicles) ==
  LET Mc(v)  == MaintCounter(N, tourOf[v])
      seeds  == SelectSeq(vehicles, LAMBDA v : Mc(v) < 0)
      rest   == StableSortBy(SelectSeq(vehicles, LAMBDA v : Mc(v) >= 0), LAMBDA v : 0 - Mc(v))
      cl0    == StableSortBy([i \in DOMAIN seeds |-> [vs |-> <<seeds[i]>>, c |-> Mc(seeds[i])]], LAMBDA k : 0 - k.c)
      Push(cl, v) == [vs |-> Append(cl.vs, v),
                      c  |-> cl.c + Mc(v) + DepotDistM(N, Last(tourOf[Last(cl.vs)]), tourOf[v][1])]
      Step(cls, v) ==
        LET fit  == {i \in DOMAIN cls : cls[i].c + Mc(v) <= 0}
            cls1 == IF fit # {} THEN [cls EXCEPT ![Min(fit)] = Push(cls[Min(fit)], v)]
                    ELSE IF cls # << >> THEN [cls EXCEPT ![Len(cls)] = Push(cls[Len(cls)], v)]
                    ELSE <<[vs |-> <<v>>, c |-> Mc(v)]>>
        IN StableSortBy(cls1, LAMBDA k : k.c)
      final  == FoldLeft(Step, cl0, rest)
  IN [i \in DOMAIN final |-> final[i].vs]
=============================================================================
