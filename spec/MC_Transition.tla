---------------------------- MODULE MC_Transition ----------------------------
(***************************************************************************)
(* Model-checking instance of Transition.tla.  The pool (instance I, and   *)
(* for each vehicle its alternative tours as node sequences) is read from  *)
(* the JSON file named by the POOL environment variable; the vehicle       *)
(* attributes are computed by the reference semantics (Tour.tla), never by *)
(* the implementation.                                                     *)
(***************************************************************************)
EXTENDS Tour, Json, IOUtils

CONSTANTS MCMaxCycles, MCMaxHist, MCEmit

Pool == JsonDeserialize(IOEnv.POOL)
NP == TLCEval(BuildNet(Pool.I))
PoolVehM == {Pool.veh[i].id : i \in DOMAIN Pool.veh}
VRec(v) == CHOOSE r \in Range1(Pool.veh) : r.id = v
NAltsM(v) == Len(VRec(v).alts)
AttrTab == TLCEval([v \in PoolVehM |->
              [k \in 1..NAltsM(v) |->
                 LET t == VRec(v).alts[k]
                 IN [mc |-> MaintCounter(NP, t), sd |-> NP.nd[t[1]].depot, ed |-> NP.nd[Last(t)].depot]]])
AttrM(v, k) == AttrTab[v][k]
DDTab == TLCEval([p \in (DOMAIN NP.depots) \X (DOMAIN NP.depots) |->
            LET d == DhDist(NP, NP.depots[p[1]].loc, NP.depots[p[2]].loc) IN IF d = INF THEN InfDistance ELSE d])
DDM(e, s) == DDTab[<<e, s>>]

VARIABLES T, hist
Tr == INSTANCE Transition WITH PoolVeh <- PoolVehM, NAlts <- NAltsM, Attr <- AttrM, DD <- DDM,
                               MaxCycles <- MCMaxCycles, MaxHist <- MCMaxHist

MCInit == Tr!Init
MCNext == Tr!Next
MCView == T
MCTransInv == Tr!TransInv
\* every explored state is emitted with one history reaching it and all operations enabled in it
MCEmitCase == MCEmit => PrintT(<<"CASE", ToJson([hist |-> hist, next |-> SetToSeq(Tr!EnabledOps(T)), T |-> T])>>)
=============================================================================
