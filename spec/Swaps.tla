------------------------------- MODULE Swaps -------------------------------
(***************************************************************************)
(* The local-search neighbourhood as a function of the abstract schedule   *)
(* (C11, C08): the four swaps of solver/src/local_search/neighborhood as   *)
(* compositions of the schedule modifications of Schedule.tla, the greedy  *)
(* fit_reassign as a function (transcribed from fit_path_into_tour), and   *)
(* the enumeration of all swaps the neighbourhood tries.                   *)
(*                                                                         *)
(* One spec operator per implementation step:                              *)
(*   PathExchange = override_reassign ; (nothing | spawn_vehicle_to_       *)
(*                  replace_dummy_tour | fit_reassign) ; improve_depots ;  *)
(*                  recompute_transitions_for                              *)
(*   SpawnVehicleForMaintenance = [remove_segment] ; add_path_to_vehicle_  *)
(*                  tour ; [spawn_vehicle_for_path] ; improve ; recompute  *)
(*   AddTripForHitchHiking = add_path_to_vehicle_tour ; improve ; recompute*)
(*   RemoveSingleNode = remove_segment                                     *)
(* The depot choice of improve_depots stays relational (ImproveDepotsOK):  *)
(* swap results are compared up to the depots of the changed vehicles.     *)
(***************************************************************************)
EXTENDS Schedule

NEWD == "new_dummy"      \* placeholder ids of the (at most one) dummy / vehicle a swap creates
NEWV == "new_vehicle"

(***************************************************************************)
(* fit_reassign as a function.  The path is consumed front to back; each   *)
(* round takes the longest prefix that ends before the receiver's next     *)
(* blocking node, can reach it, and may be cut out of the provider; the    *)
(* prefix moves if it causes no conflict in the receiver, otherwise it     *)
(* stays with the provider.                                                *)
(***************************************************************************)
\* the conflict of a segment given by its end nodes (no depot stripping, as Tour::conflict)
ConflictRaw(N, tour, first, last) ==
  LET sp  == IF IsDepotId(N, first) THEN 0 ELSE PrefixLen(N, tour, first)
      ep0 == IF IsDepotId(N, last) THEN Len(tour) + 1 ELSE SuffixPos(N, tour, last)
  IN SubSeq(tour, sp + 1, ep0 - 1)

RECURSIVE FitLoop(_, _, _, _, _, _, _)
FitLoop(N, tp, tr, path, moved, pd, rd) ==
  IF path = << >> THEN [tp |-> tp, tr |-> tr, moved |-> moved]
  ELSE
    LET start  == path[1]
        k      == PrefixLen(N, tr, start)
        endpos == IF k = Len(tr) THEN Len(path)
                  ELSE LET blocker == tr[k + 1]
                           early == {i \in DOMAIN path : \A j \in 1..i : N.nd[path[j]].t2 <= N.nd[blocker].t1}
                           ok    == {i \in early : /\ Reach(N, path[i], blocker)
                                                   /\ Removable(N, tp, pd, PosOf(tp, start), PosOf(tp, path[i]))}
                       IN IF ok = {} THEN 1 ELSE Max(ok)
        sub    == SubSeq(path, 1, endpos)
        rest0  == SubSeq(path, endpos + 1, Len(path))
        rest   == IF Acts(N, rest0) = << >> THEN << >> ELSE rest0      \* Path::new_trusted
        i      == PosOf(tp, start)
        j      == PosOf(tp, Last(sub))
    IN IF ~Removable(N, tp, pd, i, j) THEN FitLoop(N, tp, tr, rest, moved, pd, rd)
       ELSE IF Acts(N, ConflictRaw(N, tr, start, Last(sub))) # << >> THEN FitLoop(N, tp, tr, rest, moved, pd, rd)
       ELSE LET rem == RemoveSeg(N, tp, pd, i, j)
            IN FitLoop(N, rem.tour, InsertPath(N, tr, rem.removed, rd).tour, rest, moved \o sub, pd, rd)

FitRun(N, A, P, R, s, e) ==
  FitLoop(N, TourOfV(A, P), TourOfV(A, R), Moved(A, P, s, e), << >>, IsDummy(A, P), IsDummy(A, R))
FitRes(N, A, P, R, s, e) ==
  LET f  == FitRun(N, A, P, R, s, e)
      A1 == SetTour(N, SetTour(N, A, P, f.tp), R, f.tr)
  IN [A1 EXCEPT !.form = MoveForm(N, A, A.form, P, R, ActSet(N, f.moved))]
\* a real receiver of a dummy's nodes needs room in every formation it joins
FitFormOK(N, A, P, R, s, e) ==
  (IsReal(A, R) /\ IsDummy(A, P)) => \A n \in ActSet(N, FitRun(N, A, P, R, s, e).moved) : ~FormFull(N, A, n)

(***************************************************************************)
(* The swaps.  Each yields  [ok, X, changed]  : whether apply() returns Ok,*)
(* the schedules it may hand to improve_depots (a set: a spawned vehicle's *)
(* depots are the spawn's choice) and the vehicles whose depots may then   *)
(* change.                                                                 *)
(***************************************************************************)
Fail == [ok |-> FALSE, X |-> {}, changed |-> {}]
Okay(X, changed) == [ok |-> TRUE, X |-> X, changed |-> changed]

PathExchangeF(N, A, P, R, s, e) ==
  IF ~OverridePre(N, A, P, R, s, e) THEN Fail
  ELSE
    LET A1    == OverrideRes(N, A, P, R, s, e, NEWD)
        disp  == OverrideDisplaced(N, A, P, R, s, e)
        chR   == IF IsReal(A, R) THEN {R} ELSE {}
    IN IF disp = << >> THEN Okay({A1}, chR)
       ELSE IF ~Exists(A1, P) THEN
              IF IsDummy(A, P) THEN Okay({A1}, chR)
              ELSE \* the provider vanished: a new vehicle of its type takes the displaced trips
                   LET A2 == [A1 EXCEPT !.dum = Drop(A1.dum, NEWD)]
                       ty == A.vtype[P]
                   IN IF ~SpawnPre(N, A2, ty, disp) THEN Fail
                      ELSE Okay(SpawnRes(N, A2, ty, disp, NEWV), chR \cup {NEWV})
       ELSE \* the provider is still there: it takes back what fits of the displaced trips
            IF ~(FitPre(N, A1, NEWD, P, disp[1], Last(disp)) /\ FitFormOK(N, A1, NEWD, P, disp[1], Last(disp))) THEN Fail
            ELSE Okay({FitRes(N, A1, NEWD, P, disp[1], Last(disp))}, chR \cup (IF IsReal(A, P) THEN {P} ELSE {}))

SpawnMaintF(N, A, m, v) ==
  IF VisitsMaint(N, A.tours[v]) THEN Fail
  ELSE
    LET occ   == A.form[m]
        full  == Len(occ) >= N.nd[m].tracks
        lastO == Last(occ)
        ok1   == ~full \/ RemoveSegPre(N, A, lastO, m, m)
        A1    == IF full THEN RemoveSegRes(N, A, lastO, m, m, NEWD) ELSE A
        ch1   == IF full /\ IsReal(A1, lastO) THEN {lastO} ELSE {}
    IN IF ~ok1 THEN Fail
       ELSE IF ~AddPathPre(N, A1, v, <<m>>) THEN Fail
       ELSE LET A2   == AddPathRes(N, A1, v, <<m>>)
                conf == AddPathRet(N, A1, v, <<m>>)
                ty   == A.vtype[v]
            IN IF conf = << >> THEN Okay({A2}, ch1 \cup {v})
               ELSE IF ~SpawnPre(N, A2, ty, conf) THEN Fail
               ELSE Okay(SpawnRes(N, A2, ty, conf, NEWV), ch1 \cup {v, NEWV})

HitchHikeF(N, A, n, v) ==
  IF FormFull(N, A, n) THEN Fail
  ELSE IF ~AddPathPre(N, A, v, <<n>>) THEN Fail
  ELSE IF AddPathRet(N, A, v, <<n>>) # << >> THEN Fail
  ELSE Okay({AddPathRes(N, A, v, <<n>>)}, {v})

\* (no depot improvement, no recomputation)
RemoveNodeF(N, A, n, v) ==
  IF ~RemoveSegPre(N, A, v, n, n) THEN Fail
  ELSE Okay({RemoveSegRes(N, A, v, n, n, NEWD)}, {})

(***************************************************************************)
(* Which swaps the neighbourhood tries (RSSchedParallelNeighborhood with   *)
(* segment length limit L and overhead threshold H, both in seconds).      *)
(***************************************************************************)
\* overhead before / after position i of a tour; next to a depot (or at the end of a dummy tour) it is
\* infinite
PreOverheadOK(N, t, i, H) == i = 1 \/ IsDepotId(N, t[i - 1]) \/ N.nd[t[i]].t1 - N.nd[t[i - 1]].t2 >= H
SubOverheadOK(N, t, i, H) == i = Len(t) \/ IsDepotId(N, t[i + 1]) \/ N.nd[t[i + 1]].t1 - N.nd[t[i]].t2 >= H

Segments(N, A, P, L, H) ==
  LET t  == TourOfV(A, P)
      d  == IsDummy(A, P)
      ap == {i \in DOMAIN t : ~IsDepotId(N, t[i])}
      starts == {i \in ap : d \/ PreOverheadOK(N, t, i, H)}
      Ends(i) == {j \in ap : j >= i /\ (d \/ SubOverheadOK(N, t, j, H)) /\ N.nd[t[j]].t2 - N.nd[t[i]].t1 <= L}
                 \cup {Len(t)}                       \* the tour's last node is always tried
  IN UNION {{<<t[i], t[j]>> : j \in {jj \in Ends(i) : Removable(N, t, d, i, jj)}} : i \in starts}
\* (Removable needs i <= j, which holds: Len(t) >= i)

DescPE(P, R, s, e) == [k |-> "PE", a |-> s, b |-> e, p |-> P, r |-> R]
DescSM(m, v)       == [k |-> "SM", a |-> m, b |-> m, p |-> v, r |-> v]
DescHH(n, v)       == [k |-> "HH", a |-> n, b |-> n, p |-> v, r |-> v]
DescRN(n, v)       == [k |-> "RN", a |-> n, b |-> n, p |-> v, r |-> v]

MaintIds(N) == {id \in Ids(N) : N.nd[id].k = "mnt"}
SvcIdsOf(N, ty) == {id \in Ids(N) : N.nd[id].k = "svc" /\ N.nd[id].ty = ty}

SwapResult(N, A, d) ==
  CASE d.k = "PE" -> PathExchangeF(N, A, d.p, d.r, d.a, d.b)
    [] d.k = "SM" -> SpawnMaintF(N, A, d.a, d.p)
    [] d.k = "HH" -> HitchHikeF(N, A, d.a, d.p)
    [] d.k = "RN" -> RemoveNodeF(N, A, d.a, d.p)

\* which branch of its swap a (successful) candidate took: coverage only, never judged
SwapBranch(N, A, d) ==
  CASE d.k = "PE" ->
         LET disp == OverrideDisplaced(N, A, d.p, d.r, d.a, d.b)
             A1   == OverrideRes(N, A, d.p, d.r, d.a, d.b, NEWD)
             who  == (IF IsDummy(A, d.p) THEN "dummy" ELSE "real") \o "->" \o (IF IsDummy(A, d.r) THEN "dummy" ELSE "real")
         IN "PE:" \o who \o ":" \o
            (IF disp = << >> THEN "no_conflict"
             ELSE IF ~Exists(A1, d.p) THEN (IF IsDummy(A, d.p) THEN "provider_dummy_gone" ELSE "provider_replaced_by_new_vehicle")
             ELSE LET f == FitRun(N, A1, NEWD, d.p, disp[1], Last(disp))
                  IN IF f.moved = << >> THEN "fit_nothing"
                     ELSE IF f.tp = << >> THEN "fit_all" ELSE "fit_some")
    [] d.k = "SM" -> IF AddPathRet(N, A, d.p, <<d.a>>) = << >> THEN "SM:no_conflict" ELSE "SM:conflict_gets_new_vehicle"
    [] d.k = "HH" -> "HH"
    [] d.k = "RN" -> IF Acts(N, A.tours[d.p]) = <<d.a>> THEN "RN:vehicle_deleted"
                     ELSE IF N.nd[d.a].k = "mnt" THEN "RN:slot" ELSE "RN:trip"

Tried(N, A, L, H) ==
  {DescSM(m, v) : m \in {m \in MaintIds(N) : Len(A.form[m]) < N.nd[m].tracks}, v \in RealIds(A)}
  \cup UNION {{DescPE(P, R, sg[1], sg[2]) : sg \in Segments(N, A, P, L, H), R \in (RealIds(A) \cup DummyIds(A)) \ {P}}
              : P \in RealIds(A) \cup DummyIds(A)}
  \cup UNION {{DescHH(n, v) : n \in SvcIdsOf(N, A.vtype[v])} : v \in RealIds(A)}
  \cup UNION {{DescRN(n, v) : n \in ActSet(N, A.tours[v])} : v \in RealIds(A)}

\* the neighbourhood: the tried swaps whose apply() returns Ok
Neighbours(N, A, L, H) == {d \in Tried(N, A, L, H) : SwapResult(N, A, d).ok}

(***************************************************************************)
(* Comparing an observed candidate B with a swap result X: the new ids are *)
(* whatever the implementation chose; depots of the changed vehicles are   *)
(* improve_depots' choice.                                                 *)
(***************************************************************************)
NewReal(A, B) == IF RealIds(B) \ RealIds(A) = {} THEN "" ELSE CHOOSE x \in RealIds(B) \ RealIds(A) : TRUE
NewDum(A, B)  == IF DummyIds(B) \ DummyIds(A) = {} THEN "" ELSE CHOOSE x \in DummyIds(B) \ DummyIds(A) : TRUE
Ren(x, nv, nd) == IF x = NEWV THEN nv ELSE IF x = NEWD THEN nd ELSE x
RenameNew(X, nv, nd) ==
  LET rids == {Ren(v, nv, nd) : v \in RealIds(X)}
      dids == {Ren(v, nv, nd) : v \in DummyIds(X)}
      Back(v) == IF v = nv /\ NEWV \in RealIds(X) THEN NEWV ELSE v
      BackD(v) == IF v = nd /\ NEWD \in DummyIds(X) THEN NEWD ELSE v
  IN [ tours |-> [v \in rids |-> X.tours[Back(v)]],
       vtype |-> [v \in rids |-> X.vtype[Back(v)]],
       dum   |-> [v \in dids |-> X.dum[BackD(v)]],
       form  |-> [n \in DOMAIN X.form |-> [i \in DOMAIN X.form[n] |-> Ren(X.form[n][i], nv, nd)]] ]
FormSets(F) == [n \in DOMAIN F |-> Range1(F[n])]
\* B is X after improve_depots on the changed vehicles (formations compared as sets: their order is
\* checked call by call in TraceSched)
CandMatches(N, X0, changed, A, B) ==
  LET nv == NewReal(A, B)
      nd == NewDum(A, B)
      X  == RenameNew(X0, nv, nd)
      ch == {Ren(v, nv, nd) : v \in changed}
  IN /\ RealIds(B) = RealIds(X) /\ DummyIds(B) = DummyIds(X)
     /\ B.vtype = X.vtype /\ B.dum = X.dum
     /\ FormSets(B.form) = FormSets(X.form)
     /\ \A v \in RealIds(X) :
           /\ Acts(N, B.tours[v]) = Acts(N, X.tours[v])
           /\ v \notin ch => B.tours[v] = X.tours[v]
     /\ NewStartsRespectCaps(N, X, B)
SwapExplains(N, A, d, B) ==
  LET r == SwapResult(N, A, d)
  IN r.ok /\ \E X \in r.X : CandMatches(N, X, r.changed, A, B)
=============================================================================
