------------------------------ MODULE TraceTour ------------------------------
(***************************************************************************)
(* Trace validation of tour edits (C12) and of the per-tour caches under   *)
(* the delta formulas (C09) on cases executed by `rsv tour`.               *)
(* Events: load{I}; t{li, op, tour, dummy, ...} (self-contained).          *)
(***************************************************************************)
EXTENDS Tour, Json, IOUtils

Rec == ndJsonDeserialize(IOEnv.TRACE)
LoadIdx == {i \in DOMAIN Rec : Rec[i].ev = "load"}
Nets == TLCEval([i \in LoadIdx |-> BuildNet(Rec[i].I)])

VARIABLE l
Init == l \in DOMAIN Rec
Next == l < Len(Rec) /\ l' = l + 1

E == Rec[l]
NetE == Nets[E.li]
IsT(op) == E.ev = "t" /\ E.op = op

P_C12_nopanic == E.ev = "t" => ~E.panic
P_C12_loads == E.ev # "loadfail"

\* a valid tour can be materialised through the public API and is stored as given
P_C12_mat == IsT("mat") => (E.ok /\ E.res = E.tour)

Reported(N, removed) == IF Acts(N, removed) = << >> THEN << >> ELSE removed

\* insert: longest prefix . path . longest suffix; exactly the dropped nodes are reported
P_C12_insert == IsT("insert") =>
   LET r == InsertPath(NetE, E.tour, E.path, E.dummy)
   IN E.ok /\ E.res = r.tour /\ E.removed = Reported(NetE, r.removed)
P_C12_conflict == IsT("conflict") =>
   LET r == InsertPath(NetE, E.tour, E.path, E.dummy)
   IN E.ok /\ E.res = Reported(NetE, r.removed)
\* position probe: number of leading nodes up to the last one that reaches the path (-1 = all)
P_C12_position == IsT("lnr") =>
   LET x == IF E.dummy THEN Acts(NetE, E.path)[1] ELSE E.path[1]
       k == PrefixLen(NetE, E.tour, x)
   IN E.pos = (IF k = Len(E.tour) THEN -1 ELSE k)

I1 == PosOf(E.tour, E.s)
J1 == PosOf(E.tour, E.e)
\* remove: refused exactly when it would strand a depot or leave an unconnectable gap
P_C12_removable == IsT("removable") => (E.ok = Removable(NetE, E.tour, E.dummy, I1, J1))
P_C12_remove == IsT("remove") =>
   /\ E.ok = Removable(NetE, E.tour, E.dummy, I1, J1)
   /\ E.ok => LET r == RemoveSeg(NetE, E.tour, E.dummy, I1, J1)
              IN E.res = r.tour /\ E.removed = r.removed
\* extracting a sub-path of an existing segment always succeeds
P_C12_subpath == IsT("sub_path") => (E.ok /\ E.res = SubSeq(E.tour, I1, J1))

\* depot replacement
P_C12_depots == (IsT("rsd") \/ IsT("red")) =>
   /\ E.ok = ~E.dummy
   /\ E.ok => E.res = (IF E.op = "rsd" THEN <<E.depot>> \o Tail(E.tour)
                       ELSE SubSeq(E.tour, 1, Len(E.tour) - 1) \o <<E.depot>>)

\* C09 (tour level): the delta formulas of insert / remove / depot replacement give the
\* from-scratch figures
HasFig == E.ev = "t" /\ E.op \in {"mat", "insert", "remove", "rsd", "red"} /\ E.ok /\ E.res # << >>
P_C09_tourfig == HasFig =>
   /\ E.fig.sd = ServiceDist(NetE, E.res)
   /\ E.fig.dd = DeadHeadDist(NetE, E.res)
   /\ E.fig.ud = UsefulDur(NetE, E.res)
   /\ E.fig.c = TourCosts(NetE, E.res)
   /\ E.fig.vm = VisitsMaint(NetE, E.res)
=============================================================================
