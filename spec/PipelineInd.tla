---------------------------- MODULE PipelineInd ----------------------------
(***************************************************************************)
(* Apalache version of the local-search part of Pipeline.tla: the          *)
(* objective components are arbitrary naturals (no bound MaxVal).  The     *)
(* inductive invariant IndInv proves, for an unbounded objective domain,   *)
(* that the result of the search is never worse than its start (C08) and   *)
(* that the stage variable stays in its domain.                            *)
(***************************************************************************)
EXTENDS Integers, Sequences

VARIABLES
  \* @type: Str;
  stage,
  \* @type: Int -> Int;
  obj,
  \* @type: Int -> Int;
  startObj

Idx == 1..4
\* @type: (Int -> Int, Int -> Int) => Bool;
LexLess(a, b) == \E i \in Idx : a[i] < b[i] /\ \A j \in Idx : j < i => a[j] = b[j]
\* @type: (Int -> Int, Int -> Int) => Bool;
LexLeq(a, b) == (\A i \in Idx : a[i] = b[i]) \/ LexLess(a, b)

Stages == {"start", "ls", "lsdone"}
\* @type: (Int -> Int) => Bool;
IsVec(o) == DOMAIN o = Idx /\ \A i \in Idx : o[i] >= 0

Init == /\ stage = "start"
        /\ obj = [i \in Idx |-> 0]
        /\ startObj = obj

LsStep == /\ stage \in {"start", "ls"}
          /\ \E a, b, c, d \in Nat :
                LET o == [i \in Idx |-> IF i = 1 THEN a ELSE IF i = 2 THEN b ELSE IF i = 3 THEN c ELSE d]
                IN LexLess(o, obj) /\ obj' = o
          /\ stage' = "ls" /\ UNCHANGED startObj
LsStop == /\ stage \in {"start", "ls"}
          /\ stage' = "lsdone" /\ UNCHANGED <<obj, startObj>>
Next == LsStep \/ LsStop

IndInv == /\ stage \in Stages
          /\ IsVec(obj) /\ IsVec(startObj)
          /\ LexLeq(obj, startObj)
\* arbitrary state satisfying the invariant (for the inductive step)
IndInit == /\ stage \in Stages
           /\ \E a, b, c, d, e, f, g, h \in Nat :
                /\ obj = [i \in Idx |-> IF i = 1 THEN a ELSE IF i = 2 THEN b ELSE IF i = 3 THEN c ELSE d]
                /\ startObj = [i \in Idx |-> IF i = 1 THEN e ELSE IF i = 2 THEN f ELSE IF i = 3 THEN g ELSE h]
           /\ IndInv
ResultNotWorse == stage = "lsdone" => LexLeq(obj, startObj)
=============================================================================
