--------------------------- MODULE MC_Circulation ---------------------------
(***************************************************************************)
(* Design-level check of the optimality criterion used for C14.            *)
(*                                                                         *)
(* On a tiny instance (JSON, env INSTANCE) TLC enumerates *all* covers with *)
(* at most MaxVeh vehicles (multisets of valid tours), and checks for each  *)
(* feasible cover f:                                                       *)
(*    NoNegativeCycle(residual network of f)                               *)
(*      <=>  no feasible cover with the same allotment of maintenance      *)
(*           tracks is lexicographically better in (vehicles, cost)        *)
(* i.e. the certificate evaluated on observed start solutions              *)
(* (Circulation.tla) is sound and complete on this instance.               *)
(***************************************************************************)
EXTENDS Circulation, Json, IOUtils

CONSTANTS MaxVeh

I0 == JsonDeserialize(IOEnv.INSTANCE)
N == TLCEval(BuildNet(I0))
TY == "T0"

Perms(S) == {s \in [1..Cardinality(S) -> S] : \A i, j \in 1..Cardinality(S) : i # j => s[i] # s[j]}
Chains == UNION {{s \in Perms(S) : ValidSeq(N, s)} : S \in SUBSET ActIds(N) \ {{}}}
ToursAll == TLCEval(SetToSeq({<<s>> \o c \o <<e>> : s \in {x \in Ids(N) : N.nd[x].k = "sd"}, c \in Chains,
                                e \in {x \in Ids(N) : N.nd[x].k = "ed"}}))
K == Len(ToursAll)
\* multisets of at most MaxVeh tours: non-decreasing index sequences
Covers == UNION {{s \in [1..n -> 1..K] : \A i \in 1..(n - 1) : s[i] <= s[i + 1]} : n \in 0..MaxVeh}
AsS(cov) == [veh |-> [i \in DOMAIN cov |-> [id |-> "v" \o ToString(i), ty |-> TY, n |-> ToursAll[cov[i]]]]]

Feasible(cov) == CoverFeasible(N, AsS(cov), TY) /\ FlowWithinNetwork(N, AsS(cov), TY)
Allot(cov) == [m \in MntIds(N) |-> Through(AsS(cov), TY, m)]
Fig(cov) == <<Cardinality(DOMAIN cov), SeqSum([i \in DOMAIN cov |-> TourCosts(N, ToursAll[cov[i]])])>>
FeasibleTab == TLCEval({<<c, Allot(c), Fig(c)>> : c \in {x \in Covers : Feasible(x)}})

VARIABLE cover
Init == cover \in {e[1] : e \in FeasibleTab}
Next == UNCHANGED cover

BetterExists(cov) == \E e \in FeasibleTab : e[2] = Allot(cov) /\ PLess(e[3], Fig(cov))
CriterionExact == CoverOptimal(N, AsS(cover), TY) = ~BetterExists(cover)
\* the model is not vacuous: both optimal and non-optimal feasible covers exist
NonVacuous == Cardinality(FeasibleTab) > 1
=============================================================================
