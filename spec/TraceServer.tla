----------------------------- MODULE TraceServer -----------------------------
(***************************************************************************)
(* Trace validation for C18: every recorded HTTP exchange with the real    *)
(* server must be an allowed completion of *its own* request in            *)
(* Server.tla (Expected): health -> 200 "Healthy"; valid instance -> 200   *)
(* and a solution of exactly the instance the request carried (complete,   *)
(* feasible, views agree: Output.tla w.r.t. the request's own network);    *)
(* malformed -> 4xx; semantically invalid -> error status or closed        *)
(* connection; and the process is alive after every schedule.              *)
(* Events: load{I}; http{sched, r, kind, status, closed, timeout, body,    *)
(* li, json, O}; alive{sched, alive}.                                      *)
(***************************************************************************)
EXTENDS Output, Json, IOUtils

Rec == ndJsonDeserialize(IOEnv.TRACE)
LoadIdx == {i \in DOMAIN Rec : Rec[i].ev = "load"}
Nets == TLCEval([i \in LoadIdx |-> BuildNet(Rec[i].I)])

VARIABLE l
Init == l \in DOMAIN Rec
Next == l < Len(Rec) /\ l' = l + 1

E == Rec[l]
IsHttp(k) == E.ev = "http" /\ E.kind = k

P_C18_answered == E.ev = "http" => ~E.timeout
P_C18_health == IsHttp("health") => (E.status = 200 /\ E.body = "Healthy" /\ ~E.closed)
P_C18_own_solution == IsHttp("valid") =>
   /\ E.status = 200 /\ E.json
   /\ LET N == Nets[E.li]
      IN /\ WellFormed(N, E.O) /\ OutComplete(N, E.O) /\ OutFeasible(N, E.O) /\ ViewsAgree(N, E.O)
         /\ CoverageOK(N, E.O)
P_C18_malformed == IsHttp("malformed") => (E.status >= 400 /\ E.status <= 499)
P_C18_invalid == IsHttp("invalid") => (E.closed \/ (E.status >= 400 /\ E.status <= 599))
P_C18_alive == E.ev = "alive" => E.alive
=============================================================================
