---------------------------- MODULE Circulation ----------------------------
(***************************************************************************)
(* C14: the min-cost-flow start solution is an optimum of the per-type     *)
(* covering circulation.                                                   *)
(*                                                                         *)
(* Reference circulation network of a vehicle type ty (from N only):       *)
(*   - a split node L(x) -> R(x) for every service trip x of the type with *)
(*     bounds [min(req, limit), limit] (limit = Limit100 if none), cost    *)
(*     (0, duration * serviceTrip);                                        *)
(*   - a split node for every maintenance slot with the number of tracks   *)
(*     allotted to the type as lower and upper bound;                      *)
(*   - a split node for every depot (overflow included) with bounds        *)
(*     [0, capacity for the type] and cost (1, 0): one vehicle;            *)
(*   - an arc R(a) -> L(b) wherever the timing rule lets b follow a        *)
(*     (CanReach), and depot arcs R(d) -> L(b), R(a) -> L(d), with cost    *)
(*     (0, dead-head seconds * deadHeadTrip + idle seconds * idle).        *)
(* Costs are pairs ordered lexicographically: first vehicles, then         *)
(* operating cost - exactly the order of the property, independent of the  *)
(* big-M constant the implementation uses.                                 *)
(*                                                                         *)
(* The observed tours of the type induce a flow.  It is an optimum iff it  *)
(* is feasible and the residual network has no negative cycle (the         *)
(* classical optimality criterion, valid for costs in any ordered abelian  *)
(* group); TLC evaluates Bellman-Ford over the residual network.           *)
(***************************************************************************)
EXTENDS SchedView

ToursOfType(S, ty) == {v.n : v \in {w \in Range1(S.veh) : w.ty = ty}}
VehOfTy(S, ty) == {w \in Range1(S.veh) : w.ty = ty}
Through(S, ty, x) == Cardinality({v \in VehOfTy(S, ty) : HasNode(v.n, x)})
Along(S, ty, a, b) ==
  Cardinality({v \in VehOfTy(S, ty) : \E i \in 1..(Len(v.n) - 1) : v.n[i] = a /\ v.n[i + 1] = b})
StartsAt(N, S, ty, d) == Cardinality({v \in VehOfTy(S, ty) : StartDepotOf(N, v) = d})
EndsAt(N, S, ty, d) == Cardinality({v \in VehOfTy(S, ty) : EndDepotOf(N, v) = d})

SvcOfType(N, ty) == {x \in SvcIds(N) : N.nd[x].ty = ty}
\* maintenance slots the type was allotted tracks of (observed on the start solution)
MntOfType(N, S, ty) == {m \in MntIds(N) : Through(S, ty, m) > 0}
ActsIn(N, S, ty) == SvcOfType(N, ty) \cup MntOfType(N, S, ty)

LowerOf(N, x) == IF N.nd[x].lim = -1 THEN Min2(N.nd[x].req, Limit100) ELSE Min2(N.nd[x].req, N.nd[x].lim)
UpperOf(N, x) == IF N.nd[x].lim = -1 THEN Limit100 ELSE N.nd[x].lim

(* ---------------- feasibility of the observed cover ---------------- *)
CoverFeasible(N, S, ty) ==
  /\ \A v \in VehOfTy(S, ty) : ValidRealTour(N, v.n) /\ \A i \in 2..(Len(v.n) - 1) : OfType(N, ty, v.n[i])
  /\ \A x \in SvcOfType(N, ty) : Through(S, ty, x) >= LowerOf(N, x) /\ Through(S, ty, x) <= UpperOf(N, x)
  /\ \A d \in DOMAIN N.depots :
        /\ StartsAt(N, S, ty, d) = EndsAt(N, S, ty, d)                      \* a circulation
        /\ LET c == DepotCapFor(N.depots[d], ty) IN (d # OVERFLOW /\ c # -1) => StartsAt(N, S, ty, d) <= c

(* ---------------- residual network with lexicographic pair costs ---------------- *)
PLess(a, b) == a[1] < b[1] \/ (a[1] = b[1] /\ a[2] < b[2])
PAdd(a, b) == <<a[1] + b[1], a[2] + b[2]>>
PNeg(a) == <<0 - a[1], 0 - a[2]>>
PMin(S) == CHOOSE a \in S : \A b \in S : ~PLess(b, a)

NdL(x) == <<"L", x>>
NdR(x) == <<"R", x>>
ArcCost(N, a, b) == <<0, LegCost(N, a, b)>>
\* all edges of the reference network: [u, v, lo, hi (-1 = unbounded), c, f]
NetEdges(N, S, ty) ==
  LET acts == ActsIn(N, S, ty)
      deps == DOMAIN N.depots
  IN   {[u |-> NdL(x), v |-> NdR(x), lo |-> LowerOf(N, x), hi |-> UpperOf(N, x),
          c |-> <<0, NodeCost(N, N.nd[x])>>, f |-> Through(S, ty, x)] : x \in SvcOfType(N, ty)}
  \cup {[u |-> NdL(m), v |-> NdR(m), lo |-> Through(S, ty, m), hi |-> Through(S, ty, m),
          c |-> <<0, NodeCost(N, N.nd[m])>>, f |-> Through(S, ty, m)] : m \in MntOfType(N, S, ty)}
  \cup {[u |-> NdL(d), v |-> NdR(d), lo |-> 0, hi |-> (IF d = OVERFLOW THEN -1 ELSE DepotCapFor(N.depots[d], ty)),
          c |-> <<1, 0>>, f |-> StartsAt(N, S, ty, d)] : d \in deps}
  \cup {[u |-> NdR(p[1]), v |-> NdL(p[2]), lo |-> 0, hi |-> -1, c |-> ArcCost(N, N.nd[p[1]], N.nd[p[2]]),
          f |-> Along(S, ty, p[1], p[2])] : p \in {q \in acts \X acts : Reach(N, q[1], q[2])}}
  \cup {[u |-> NdR(p[1]), v |-> NdL(p[2]), lo |-> 0, hi |-> -1,
          c |-> ArcCost(N, N.nd[N.depots[p[1]].sn], N.nd[p[2]]),
          f |-> Along(S, ty, N.depots[p[1]].sn, p[2])] : p \in deps \X acts}
  \cup {[u |-> NdR(p[1]), v |-> NdL(p[2]), lo |-> 0, hi |-> -1,
          c |-> ArcCost(N, N.nd[p[1]], N.nd[N.depots[p[2]].en]),
          f |-> Along(S, ty, p[1], N.depots[p[2]].en)] : p \in acts \X deps}

Residual(edges) ==
     {[u |-> e.u, v |-> e.v, c |-> e.c] : e \in {x \in edges : x.hi = -1 \/ x.f < x.hi}}
  \cup {[u |-> e.v, v |-> e.u, c |-> PNeg(e.c)] : e \in {x \in edges : x.f > x.lo}}

NodesOf(edges) == {e.u : e \in edges} \cup {e.v : e \in edges}
Relax(nodes, res, dist) ==
  [v \in nodes |-> PMin({dist[v]} \cup {PAdd(dist[e.u], e.c) : e \in {x \in res : x.v = v}})]
RECURSIVE BellmanFord(_, _, _, _)
BellmanFord(nodes, res, dist, k) ==
  IF k = 0 THEN dist
  ELSE LET nd == Relax(nodes, res, dist)
       IN IF nd = dist THEN dist ELSE BellmanFord(nodes, res, nd, k - 1)
NoNegativeCycle(edges) ==
  LET nodes == NodesOf(edges)
      res   == Residual(edges)
      d     == BellmanFord(nodes, res, [v \in nodes |-> <<0, 0>>], Cardinality(nodes))
  IN Relax(nodes, res, d) = d

\* the observed flow respects the bounds of the reference network (no arc outside it is used)
FlowWithinNetwork(N, S, ty) ==
  /\ \A e \in NetEdges(N, S, ty) : e.f >= e.lo /\ (e.hi = -1 \/ e.f <= e.hi)
  /\ \A v \in VehOfTy(S, ty) : \A i \in 2..(Len(v.n) - 1) : v.n[i] \in ActsIn(N, S, ty)

CoverOptimal(N, S, ty) == NoNegativeCycle(NetEdges(N, S, ty))
\* figures for the evidence
TypeVehicles(S, ty) == Cardinality(VehOfTy(S, ty))
TypeCosts(N, S, ty) == SeqSum([i \in DOMAIN SelectSeq(S.veh, LAMBDA v : v.ty = ty) |->
                                  TourCosts(N, SelectSeq(S.veh, LAMBDA v : v.ty = ty)[i].n)])
=============================================================================
