----------------------------- MODULE TraceSwap -----------------------------
(***************************************************************************)
(* Trace validation of the local-search neighbourhood against Swaps.tla    *)
(* (C11, and the "cannot improve further" half of C08).                    *)
(*                                                                         *)
(* Events:  load{I}  base{li,S}  cand{li,bi,sw,S}  enum{li,bi,ok,all}      *)
(* bi = line of the base schedule the candidate / enumeration belongs to.  *)
(* Every event is one state.                                               *)
(***************************************************************************)
EXTENDS Swaps, SchedView, Json, IOUtils

Rec == ndJsonDeserialize(IOEnv.TRACE)
LoadIdx == {i \in DOMAIN Rec : Rec[i].ev = "load"}
Nets == TLCEval([i \in LoadIdx |-> BuildNet(Rec[i].I)])

VARIABLE l
Init == l \in DOMAIN Rec
Next == l < Len(Rec) /\ l' = l + 1

E == Rec[l]
NetE == Nets[E.li]

Abs(S) == [ tours |-> TourMap(S), vtype |-> TypeMap(S),
            dum |-> [id \in DumIds(S) |-> (CHOOSE d \in Range1(S.dum) : d.id = id).n],
            form |-> FormMap(S) ]

\* limits used by build_local_search_solver (solver/src/local_search/mod.rs): 3:00:00 and 0:10:00
SegLimit == 10800
Overhead == 600

IsCand == E.ev = "cand"
Kinds == {"PE", "SM", "HH", "RN"}
\* every candidate names a swap of the model ...
P_C11_swapknown == IsCand => E.sw.k \in Kinds
\* ... and is what that swap yields on the base schedule (up to improve_depots' choice of depots)
P_C11_swap == (IsCand /\ E.sw.k \in Kinds) => SwapExplains(NetE, Abs(Rec[E.bi].S), E.sw, Abs(E.S))
\* the neighbourhood is exactly the set of swaps of the model that apply: nothing missing, nothing extra
IsEnum == E.ev = "enum" /\ E.ok
Offered == {d \in Range1(E.all) : d.k \in Kinds}
Expected == Neighbours(NetE, Abs(Rec[E.bi].S), SegLimit, Overhead)
P_C11_complete == IsEnum => Expected \subseteq Offered
P_C11_sound == IsEnum => Offered \subseteq Expected
\* coverage report (always true): the branch every validated candidate took, the size of every neighbourhood
Cov == /\ (IsCand /\ E.sw.k \in Kinds) => PrintT(<<"COV", SwapBranch(NetE, Abs(Rec[E.bi].S), E.sw)>>)
       /\ IsEnum => PrintT(<<"NBH", Cardinality(Offered)>>)
=============================================================================
