------------------------------ MODULE Pipeline ------------------------------
(***************************************************************************)
(* The solve pipeline as a stage machine (C06, C08, C16 at design level):  *)
(*   load -> mcf -> start -> ls* -> transopt -> align -> out -> done       *)
(* The state carries the hierarchical objective <<unserved, violation,     *)
(* vehicles, costs>> over a small domain.  A local-search step is taken    *)
(* only to a strictly smaller objective in the lexicographic order; the    *)
(* search has neither a time nor an iteration limit and stops exactly when *)
(* no candidate improves (modelled by the set Better being exhausted or    *)
(* by the neighbourhood offering nothing better: nondeterministic stop).   *)
(* There is no action for a panic, an abort or a timeout: a trace that     *)
(* ends in such a status is not a behaviour of this machine.               *)
(***************************************************************************)
EXTENDS Naturals, Sequences, FiniteSets, TLC

CONSTANTS MaxVal        \* objective components range over 0..MaxVal

VARIABLES stage, obj, startObj, lsSteps
vars == <<stage, obj, startObj, lsSteps>>

Vec == [1..4 -> 0..MaxVal]
LexLess(a, b) == \E i \in 1..4 : a[i] < b[i] /\ \A j \in 1..(i - 1) : a[j] = b[j]
LexLeq(a, b) == a = b \/ LexLess(a, b)

Init == stage = "load" /\ obj = [i \in 1..4 |-> MaxVal] /\ startObj = obj /\ lsSteps = 0

Mcf == /\ stage = "load" /\ stage' = "mcf"
       /\ obj' \in Vec /\ UNCHANGED <<startObj, lsSteps>>
\* improve_depots: activities and formations unchanged, only costs / violation may change
ImproveDepots == /\ stage = "mcf" /\ stage' = "start"
                 /\ obj' \in {o \in Vec : o[1] = obj[1] /\ o[3] = obj[3]}
                 /\ startObj' = obj' /\ UNCHANGED lsSteps
\* one accepted step: strictly better in the lexicographic order
LsStep == /\ stage = "start" \/ stage = "ls"
          /\ \E o \in Vec : LexLess(o, obj) /\ obj' = o
          /\ stage' = "ls" /\ lsSteps' = lsSteps + 1 /\ UNCHANGED startObj
\* the search stops when its neighbourhood holds nothing better
LsStop == /\ stage = "start" \/ stage = "ls"
          /\ stage' = "lsdone" /\ UNCHANGED <<obj, startObj, lsSteps>>
\* transition optimisation: violation not worse, everything else kept
TransOpt == /\ stage = "lsdone" /\ stage' = "transopt"
            /\ obj' \in {o \in Vec : o[1] = obj[1] /\ o[3] = obj[3] /\ o[4] = obj[4] /\ o[2] <= obj[2]}
            /\ UNCHANGED <<startObj, lsSteps>>
\* end-depot alignment: only depots move (costs and violation may change)
Align == /\ stage = "transopt" /\ stage' = "align"
         /\ obj' \in {o \in Vec : o[1] = obj[1] /\ o[3] = obj[3]}
         /\ UNCHANGED <<startObj, lsSteps>>
Output == stage = "align" /\ stage' = "out" /\ UNCHANGED <<obj, startObj, lsSteps>>
Done == stage = "out" /\ stage' = "done" /\ UNCHANGED <<obj, startObj, lsSteps>>

Next == Mcf \/ ImproveDepots \/ LsStep \/ LsStop \/ TransOpt \/ Align \/ Output \/ Done
Spec == Init /\ [][Next]_vars /\ WF_vars(Mcf) /\ WF_vars(ImproveDepots) /\ WF_vars(LsStep \/ LsStop)
             /\ WF_vars(TransOpt) /\ WF_vars(Align) /\ WF_vars(Output) /\ WF_vars(Done)

TypeOK == stage \in {"load", "mcf", "start", "ls", "lsdone", "transopt", "align", "out", "done"} /\ obj \in Vec
\* every request is answered (C06): strict descent in a well-founded order cannot go on for ever
Termination == <>(stage = "done")
\* C08: each accepted step strictly improves; the result is never worse than the start
Descent == [][(stage' = "ls" /\ stage \in {"start", "ls"}) => LexLess(obj', obj)]_vars
ResultNotWorse == stage = "lsdone" => LexLeq(obj, startObj)
\* C07: no stage after the start gives up covered demand
DemandKept == stage \in {"ls", "lsdone", "transopt", "align", "out", "done"} => obj[1] <= startObj[1]
\* the number of accepted steps is bounded by the size of the objective domain
StepsBounded == lsSteps <= (MaxVal + 1) * (MaxVal + 1) * (MaxVal + 1) * (MaxVal + 1)
=============================================================================
