----------------------------- MODULE TraceSched -----------------------------
(***************************************************************************)
(* Trace validation of histories of public schedule modifications          *)
(* (C09, C10, C13, and C12 on the schedule level).                         *)
(*                                                                         *)
(* Events:  load{I}   init{li,S}   op{li,pi,op,args,ok,panic,ret,hb,ha,S}  *)
(* pi = line of the event that holds the pre-state of the call (the        *)
(* previous successful call or init).  Every event is one state.           *)
(***************************************************************************)
EXTENDS Swaps, Rotation, SchedView, Json, IOUtils

Rec == ndJsonDeserialize(IOEnv.TRACE)
LoadIdx == {i \in DOMAIN Rec : Rec[i].ev = "load"}
Nets == TLCEval([i \in LoadIdx |-> BuildNet(Rec[i].I)])

VARIABLE l
Init == l \in DOMAIN Rec
Next == l < Len(Rec) /\ l' = l + 1

E == Rec[l]
NetE == Nets[E.li]
IsOp == E.ev = "op"
HasS == E.ev = "init" \/ (IsOp /\ E.ok)
PreS == Rec[E.pi].S

\* abstraction of a projected schedule
Abs(S) == [ tours |-> TourMap(S), vtype |-> TypeMap(S),
            dum |-> [id \in DumIds(S) |-> (CHOOSE d \in Range1(S.dum) : d.id = id).n],
            form |-> FormMap(S) ]
Cyc(N, S) == [ty \in N.types |-> IF ty \in DOMAIN CycleSets(S) THEN CycleSets(S)[ty] ELSE {}]

(* ---------------- C10 / C09 on every observed state ---------------- *)
P_C10_tours == HasS => ToursOK(NetE, E.S) /\ DummiesOK(NetE, E.S)
P_C10_formations == HasS => FormationsOK(NetE, E.S)
P_C10_limits == HasS => LimitsOK(NetE, E.S)
P_C10_listings == HasS => ListingsSorted(NetE, E.S)
P_C10_cycles == HasS => CyclesPartitionOK(NetE, E.S)
P_C09_tour == HasS => AllTourCachesOK(NetE, E.S)
P_C09_sched == HasS => ScheduleCachesOK(NetE, E.S)
P_C09_viol == HasS => ViolationCacheOK(NetE, E.S)
P_C09_trans == HasS => TransitionCachesOK(NetE, E.S)
P_C09_depot == HasS => DepotCachesOK(NetE, E.S)

(* ---------------- C13 ---------------- *)
P_C13_nopanic == IsOp => ~E.panic
\* the input schedule value is untouched by the call
P_C13_input == IsOp => E.hb = E.ha

NewDummy(A, B) == IF DummyIds(B) \ DummyIds(A) = {} THEN "" ELSE CHOOSE x \in DummyIds(B) \ DummyIds(A) : TRUE
\* formations may differ in the position of vehicle r on the nodes in `loose` (don't-care, see
\* DESIGN appendix B)
FormMatch(Fo, Fs, loose, r) ==
  /\ DOMAIN Fo = DOMAIN Fs
  /\ \A n \in DOMAIN Fo :
        IF n \in loose
          THEN /\ SeqWithout(Fo[n], r) = SeqWithout(Fs[n], r)
               /\ InSeq(Fo[n], r) = InSeq(Fs[n], r) /\ NoDup(Fo[n])
          ELSE Fo[n] = Fs[n]
Match(B, X, loose, r) ==
  /\ B.tours = X.tours /\ B.vtype = X.vtype /\ B.dum = X.dum
  /\ FormMatch(B.form, X.form, loose, r)

PathArg == E.args.path
SegS == E.args.s
SegE == E.args.e

\* did the call have to succeed?
MustSucceed(N, A) ==
  CASE E.op = "spawn_vehicle_for_path" -> SpawnPre(N, A, E.args.ty, PathArg)
    [] E.op = "spawn_vehicle_to_replace_dummy_tour" ->
          /\ IsDummy(A, E.args.dummy)
          /\ SpawnPre(N, [A EXCEPT !.dum = Drop(A.dum, E.args.dummy)], E.args.ty, A.dum[E.args.dummy])
    [] E.op = "replace_vehicle_by_dummy" -> IsReal(A, E.args.v)
    [] E.op = "add_path_to_vehicle_tour" ->
          /\ AddPathPre(N, A, E.args.v, PathArg)
          /\ ActSet(N, PathArg) \cap ActSet(N, A.tours[E.args.v]) = {}
    [] E.op = "remove_segment" -> RemoveSegPre(N, A, E.args.v, SegS, SegE)
    [] E.op = "override_reassign" ->
          /\ OverridePre(N, A, E.args.p, E.args.r, SegS, SegE)
          /\ (IsReal(A, E.args.r) => ActSet(N, Moved(A, E.args.p, SegS, SegE)) \cap ActSet(N, A.tours[E.args.r]) = {})
    [] E.op = "fit_reassign" ->
          /\ FitPre(N, A, E.args.p, E.args.r, SegS, SegE)
          /\ ~(IsReal(A, E.args.r) /\ IsDummy(A, E.args.p))
    [] OTHER -> TRUE
\* may the call succeed at all?
MaySucceed(N, A) ==
  CASE E.op = "spawn_vehicle_for_path" -> SpawnPre(N, A, E.args.ty, PathArg)
    [] E.op = "spawn_vehicle_to_replace_dummy_tour" ->
          /\ IsDummy(A, E.args.dummy)
          /\ SpawnPre(N, [A EXCEPT !.dum = Drop(A.dum, E.args.dummy)], E.args.ty, A.dum[E.args.dummy])
    [] E.op = "replace_vehicle_by_dummy" -> IsReal(A, E.args.v)
    [] E.op = "add_path_to_vehicle_tour" ->
          /\ IsReal(A, E.args.v) /\ ValidPath(N, PathArg)
          /\ \A i \in DOMAIN PathArg : OfType(N, A.vtype[E.args.v], PathArg[i])
          /\ (N.nd[PathArg[1]].k = "sd" /\ PathArg[1] # A.tours[E.args.v][1]) =>
                CanSpawn(N, A, N.nd[PathArg[1]].depot, A.vtype[E.args.v])
          /\ \A n \in ActSet(N, PathArg) \ ActSet(N, A.tours[E.args.v]) : ~FormFull(N, A, n)
    [] E.op = "remove_segment" -> RemoveSegPre(N, A, E.args.v, SegS, SegE)
    [] E.op = "override_reassign" ->
          /\ ReassignPre(N, A, E.args.p, E.args.r, SegS, SegE)
          /\ SegPre(N, TourOfV(A, E.args.p), IsDummy(A, E.args.p), SegS, SegE)
          /\ TypeCompat(N, A, E.args.p, E.args.r, Moved(A, E.args.p, SegS, SegE))
          /\ TakeoverOK(N, A, E.args.p, E.args.r, SegS)
          /\ (IsReal(A, E.args.r) /\ IsDummy(A, E.args.p)) =>
                \A n \in ActSet(N, Moved(A, E.args.p, SegS, SegE)) \ ActSet(N, A.tours[E.args.r]) : ~FormFull(N, A, n)
    [] E.op = "fit_reassign" -> FitPre(N, A, E.args.p, E.args.r, SegS, SegE)
    [] OTHER -> TRUE

\* a refused call is one of the documented refusals; an enabled call is not refused
P_C13_refusal == (IsOp /\ ~E.ok /\ ~E.panic) => ~MustSucceed(NetE, Abs(PreS))
P_C13_enabled == (IsOp /\ E.ok) => MaySucceed(NetE, Abs(PreS))

\* the documented effect and nothing else (tours, types, dummies, formations)
EffectOK(N, A, B) ==
  CASE E.op = "spawn_vehicle_for_path" ->
          /\ E.ret.id \notin RealIds(A)
          /\ \E X \in SpawnRes(N, A, E.args.ty, PathArg, E.ret.id) : Match(B, X, {}, "")
    [] E.op = "spawn_vehicle_to_replace_dummy_tour" ->
          /\ E.ret.id \notin RealIds(A)
          /\ \E X \in SpawnRes(N, [A EXCEPT !.dum = Drop(A.dum, E.args.dummy)], E.args.ty,
                               A.dum[E.args.dummy], E.ret.id) : Match(B, X, {}, "")
    [] E.op = "replace_vehicle_by_dummy" ->
          /\ NewDummy(A, B) \notin DummyIds(A)
          /\ Match(B, ReplaceByDummyRes(N, A, E.args.v, NewDummy(A, B)), {}, "")
    [] E.op = "add_path_to_vehicle_tour" ->
          /\ Match(B, AddPathRes(N, A, E.args.v, PathArg),
                   ActSet(N, PathArg) \cap ActSet(N, A.tours[E.args.v]), E.args.v)
          /\ E.ret.removed = AddPathRet(N, A, E.args.v, PathArg)
    [] E.op = "remove_segment" ->
          Match(B, RemoveSegRes(N, A, E.args.v, SegS, SegE, NewDummy(A, B)), {}, "")
    [] E.op = "override_reassign" ->
          /\ E.ret.dummy = NewDummy(A, B)
          /\ (E.ret.dummy = "") = (OverrideDisplaced(N, A, E.args.p, E.args.r, SegS, SegE) = << >>)
          /\ Match(B, OverrideRes(N, A, E.args.p, E.args.r, SegS, SegE, NewDummy(A, B)),
                   IF IsReal(A, E.args.r)
                     THEN ActSet(N, Moved(A, E.args.p, SegS, SegE)) \cap ActSet(N, A.tours[E.args.r]) ELSE {},
                   E.args.r)
    [] E.op = "fit_reassign" -> FitOK(N, A, B, E.args.p, E.args.r, SegS, SegE)
    [] E.op = "improve_depots" ->
          ImproveDepotsOK(N, A, B, IF E.args.all THEN RealIds(A) ELSE Range1(E.args.vs))
    [] E.op = "reassign_end_depots_greedily" -> EndDepotsOnlyOK(N, A, B)
    [] E.op = "reassign_end_depots_consistent_with_transitions" ->
          EndDepotsOnlyOK(N, A, B) /\ AlignedOK(N, A, B, Cyc(N, PreS))
    [] E.op = "recompute_transitions_for" -> B = A
    [] E.op = "set_next_day_transitions" -> B = A
    [] OTHER -> FALSE
P_C13_effect == (IsOp /\ E.ok) => EffectOK(NetE, Abs(PreS), Abs(E.S))

\* fit_reassign is the greedy function FitRes of Swaps.tla (transcribed from fit_path_into_tour), not
\* just some result allowed by the relation FitOK; it is refused exactly for the documented reasons
IsFit == IsOp /\ E.op = "fit_reassign" /\ ~E.panic
P_C13_fit_exact == (IsFit /\ E.ok) =>
   LET X == FitRes(NetE, Abs(PreS), E.args.p, E.args.r, SegS, SegE)
       B == Abs(E.S)
   IN B.tours = X.tours /\ B.vtype = X.vtype /\ B.dum = X.dum /\ B.form = X.form
P_C13_fit_refusal == IsFit =>
   (E.ok <=> (/\ FitPre(NetE, Abs(PreS), E.args.p, E.args.r, SegS, SegE)
              /\ FitFormOK(NetE, Abs(PreS), E.args.p, E.args.r, SegS, SegE)))

\* the cycles built by recompute_transitions_for / improve_depots(None) are those of the greedy function
\* NewFast of Rotation.tla (transcribed from Transition::new_fast)
VehSeq(S, ty) == LET s == SelectSeq(S.veh, LAMBDA v : v.ty = ty) IN [i \in DOMAIN s |-> s[i].id]
NonEmptyCycles(S, ty) == SelectSeq(CyclesOf(S, ty), LAMBDA c : c # << >>)
RecomputedTypes ==
  IF E.op = "recompute_transitions_for" THEN (IF E.args.all THEN NetE.types ELSE Range1(E.args.tys))
  ELSE IF E.op = "improve_depots" /\ E.args.all THEN NetE.types ELSE {}
P_C13_recompute_exact == (IsOp /\ E.ok) =>
   \A ty \in RecomputedTypes : NonEmptyCycles(E.S, ty) = NewFast(NetE, TourMap(E.S), VehSeq(E.S, ty))

\* rotation cycles: membership maintained unless the operation is documented to recompute
CyclesEffectOK(N, A, B, ca, cb) ==
  CASE E.op \in {"spawn_vehicle_for_path", "spawn_vehicle_to_replace_dummy_tour", "replace_vehicle_by_dummy",
                 "add_path_to_vehicle_tour", "remove_segment", "override_reassign", "fit_reassign",
                 "reassign_end_depots_consistent_with_transitions"} -> CyclesMaintained(N, A, B, ca, cb)
    [] E.op = "improve_depots" -> E.args.all \/ CyclesMaintained(N, A, B, ca, cb)
    [] E.op = "reassign_end_depots_greedily" -> TRUE
    [] E.op = "recompute_transitions_for" ->
          CyclesSameExcept(N, ca, cb, IF E.args.all THEN N.types ELSE Range1(E.args.tys))
    [] E.op = "set_next_day_transitions" ->
          \A x \in Range1(E.args.x) : cb[x.ty] = {c \in Range1(x.cyc) : c # << >>}
    [] OTHER -> FALSE
P_C13_cycles == (IsOp /\ E.ok) =>
   CyclesEffectOK(NetE, Abs(PreS), Abs(E.S), Cyc(NetE, PreS), Cyc(NetE, E.S))
(* ---------------- C15: the real transition optimiser on reachable schedules ---------------- *)
\* it returns cycles over the same vehicles whose violation, then counter (both recomputed from the
\* tours), is not worse than what it was given
IsTopt == E.ev = "topt"
P_C15_topt == IsTopt =>
   /\ E.ok
   /\ \A x \in Range1(E.tr) :
         LET A    == PreS
             cyc  == SelectSeq(x.cyc, LAMBDA c : c # << >>)
             pre  == SelectSeq(x.pre, LAMBDA c : c # << >>)
             flat == FoldLeft(LAMBDA acc, c : acc \o c, << >>, cyc)
         IN /\ NoDup(flat) /\ Range1(flat) = VehOfType(A, x.ty)
            /\ LexLeq(<<Violation(NetE, TourMap(A), cyc), CounterTotal(NetE, TourMap(A), cyc)>>,
                      <<Violation(NetE, TourMap(A), pre), CounterTotal(NetE, TourMap(A), pre)>>)

(* ---------------- specification -> implementation: replayed model histories ---------------- *)
\* MC_Schedule emits every explored state with a history of fully determined calls; after replaying the
\* history on the real Schedule the observed abstract state must be exactly the model state
IsReplayed == E.ev = "replayed"
P_C13_replay_ok == IsReplayed => (E.ok /\ ~E.panic)
P_C13_replay_state == (IsReplayed /\ E.ok) =>
   LET B == Abs(E.S)
   IN /\ B.tours = E.exp.A.tours /\ B.vtype = E.exp.A.vtype /\ B.dum = E.exp.A.dum /\ B.form = E.exp.A.form
      /\ \A ty \in NetE.types : Cyc(NetE, E.S)[ty] = Range1(E.exp.cyc)
P_C13_replay_inv == (IsReplayed /\ E.ok) => (SchedInv(NetE, E.S) /\ CachesOK(NetE, E.S))
=============================================================================
