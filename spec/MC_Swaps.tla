------------------------------ MODULE MC_Swaps ------------------------------
(***************************************************************************)
(* The local-search neighbourhood at the design level: starting from a     *)
(* schedule that serves every trip with its own vehicle, repeatedly apply  *)
(* ANY applicable swap of Swaps.tla (not only improving ones) and let      *)
(* improve_depots choose any capacity-respecting depots for the changed    *)
(* vehicles.  TLC checks on every reachable schedule (tiny instance, env   *)
(* INSTANCE) that the swaps preserve the structural invariant (C11 / C10   *)
(* at the design level), that no service trip is ever forgotten (it stays  *)
(* in some tour or in some dummy tour) and that every swap the model       *)
(* offers yields valid tours - i.e. that composing the reference           *)
(* semantics of the modifications the way the swaps do is safe.            *)
(***************************************************************************)
EXTENDS Swaps, Json, IOUtils

CONSTANTS MaxReal, MaxDummy, MaxSteps,
          DepotNondet    \* TRUE: improve_depots may choose any capacity-respecting depots; FALSE: it changes nothing

I0 == JsonDeserialize(IOEnv.INSTANCE)
N == TLCEval(BuildNet(I0))
TY == "T0"
SegLimit == 10800
Overhead == 600

VehName(i) == "veh_" \o ToString(i)
DumName(i) == "dummy_" \o ToString(i)

VARIABLES A, nextid, steps
vars == <<A, nextid, steps>>

\* start: one vehicle per activity that needs one (service trips), at the first depot with room, else overflow
SvcSeq == SetToSeq(SvcIds(N))
RECURSIVE Build(_, _)
Build(i, acc) ==
  IF i > Len(SvcSeq) THEN acc
  ELSE LET n  == SvcSeq[i]
           ds == {d \in RealDepotIds(N) : CanSpawn(N, acc, d, TY)}
           d  == IF ds = {} THEN OVERFLOW ELSE CHOOSE x \in ds : TRUE
           id == VehName(i - 1)
       IN Build(i + 1, [acc EXCEPT !.tours = Put(acc.tours, id, <<N.depots[d].sn, n, N.depots[d].en>>),
                                   !.vtype = Put(acc.vtype, id, TY),
                                   !.form = FormAdd(acc.form, {n}, id)])
Init == /\ A = Build(1, EmptySchedule(N))
        /\ nextid = Len(SvcSeq)
        /\ steps = 0

\* improve_depots on the changed vehicles: any depots that respect the capacities (or no change)
RECURSIVE DepotChoices(_, _)
DepotChoices(X, ch) ==
  IF ch = {} THEN {X}
  ELSE LET v == CHOOSE x \in ch : TRUE
           X0 == [X EXCEPT !.tours = Drop(X.tours, v), !.vtype = Drop(X.vtype, v)]    \* v's place is free
           sds == {N.depots[d].sn : d \in {d \in DOMAIN N.depots : CanSpawn(N, X0, d, X.vtype[v])}}
       IN UNION {UNION {DepotChoices([X EXCEPT !.tours[v] = <<s>> \o Acts(N, X.tours[v]) \o <<e>>], ch \ {v})
                        : e \in EdNodes(N)} : s \in sds}

Fresh(X) ==
  LET nv == VehName(nextid)
      nd == DumName(nextid)
  IN RenameNew(X, nv, nd)
UsesNew(X) == NEWV \in RealIds(X) \/ NEWD \in DummyIds(X)

Step ==
  /\ steps < MaxSteps
  /\ \E d \in Neighbours(N, A, SegLimit, Overhead) :
        LET r == SwapResult(N, A, d)
        IN \E X \in r.X :
             LET ch == {v \in r.changed : v \in RealIds(X)}
             IN \E Y \in (IF DepotNondet THEN DepotChoices(X, ch) ELSE {X}) :
                  /\ A' = Fresh(Y)
                  /\ nextid' = IF UsesNew(Y) THEN nextid + 1 ELSE nextid
  /\ steps' = steps + 1
Next == Step
Spec == Init /\ [][Next]_vars

Bounded == Cardinality(RealIds(A)) <= MaxReal /\ Cardinality(DummyIds(A)) <= MaxDummy

(* ---------------- invariants ---------------- *)
StructOK ==
  /\ \A v \in RealIds(A) : /\ ValidRealTour(N, A.tours[v]) /\ NoDup(A.tours[v])
                           /\ \A i \in 2..(Len(A.tours[v]) - 1) : OfType(N, A.vtype[v], A.tours[v][i])
  /\ \A n \in ActIds(N) : /\ NoDup(A.form[n])
                          /\ Range1(A.form[n]) = {v \in RealIds(A) : HasNode(A.tours[v], n)}
  /\ \A n \in ActIds(N) : /\ (N.nd[n].k = "svc" /\ N.nd[n].lim # -1) => Len(A.form[n]) <= N.nd[n].lim
                          /\ N.nd[n].k = "mnt" => Len(A.form[n]) <= N.nd[n].tracks
  /\ \A d \in RealDepotIds(N) :
        /\ N.depots[d].cap # -1 => Usage(N, A, d) <= N.depots[d].cap
        /\ LET c == DepotCapFor(N.depots[d], TY) IN c # -1 => UsageTy(N, A, d, TY) <= c
  \* (a dummy tour may hold a maintenance slot: a real provider can hand one over to a dummy receiver)
  /\ \A d \in DummyIds(A) : ValidDummyTour(N, A.dum[d]) /\ NoDup(A.dum[d])
\* a service trip never drops out of the schedule: it is in a vehicle's tour or waits in a dummy tour
NoTripForgotten ==
  \A n \in SvcIds(N) : (\E v \in RealIds(A) : HasNode(A.tours[v], n)) \/ (\E d \in DummyIds(A) : HasNode(A.dum[d], n))
\* the ids the model hands out are fresh
IdsFresh == \A v \in RealIds(A) \cup DummyIds(A) : v \notin {VehName(nextid), DumName(nextid)}
=============================================================================
