----------------------------- MODULE SchedView -----------------------------
(***************************************************************************)
(* Predicates over a projected schedule S (solution::verif::project: the   *)
(* public getters of a Schedule): structural invariants (C10), cached      *)
(* figures against from-scratch definitions (C09), and the objective       *)
(* vector recomputed from the abstract content only.                       *)
(*                                                                         *)
(*  S.veh  = seq of [id, ix, ty, n, dummy, sd, dd, ud, c, vm, mc]  (real)  *)
(*  S.dum  = the same for dummy tours                                      *)
(*  S.form = seq of [n, v]         formation (vehicle ids) per activity    *)
(*  S.tr   = seq of [ty, cyc: seq of [v, c], viol, cnt, succ: seq [v, s]]  *)
(*  S.dep  = seq of [d, ty, sp, bal, tot]                                  *)
(*  S.costs, S.unP, S.unS, S.viol, S.nveh, S.ndum                          *)
(***************************************************************************)
EXTENDS Tour

VehIds(S)  == {S.veh[i].id : i \in DOMAIN S.veh}
DumIds(S)  == {S.dum[i].id : i \in DOMAIN S.dum}
VehRec(S, id) == CHOOSE v \in Range1(S.veh) : v.id = id
TourMap(S) == [id \in VehIds(S) |-> VehRec(S, id).n]
TypeMap(S) == [id \in VehIds(S) |-> VehRec(S, id).ty]
FormRec(S, n) == CHOOSE f \in Range1(S.form) : f.n = n
FormOf(S, n) == FormRec(S, n).v
TrRec(S, ty) == CHOOSE t \in Range1(S.tr) : t.ty = ty
CyclesOf(S, ty) == [i \in DOMAIN TrRec(S, ty).cyc |-> TrRec(S, ty).cyc[i].v]
VehOfType(S, ty) == {v.id : v \in {w \in Range1(S.veh) : w.ty = ty}}
StartDepotOf(N, v) == N.nd[v.n[1]].depot
EndDepotOf(N, v) == N.nd[Last(v.n)].depot

(***************************************************************************)
(* C10: structural invariants                                              *)
(***************************************************************************)
ToursOK(N, S) ==
  \A v \in Range1(S.veh) :
     /\ ~v.dummy
     /\ v.ty \in N.types
     /\ \A i \in DOMAIN v.n : v.n[i] \in Ids(N)
     /\ ValidRealTour(N, v.n)
     /\ \A i \in 2..(Len(v.n) - 1) : OfType(N, v.ty, v.n[i])
     /\ NoDup(v.n)
DummiesOK(N, S) ==
  \A d \in Range1(S.dum) :
     /\ d.dummy
     /\ Len(d.n) >= 1
     /\ \A i \in DOMAIN d.n : d.n[i] \in ActIds(N)
FormationsOK(N, S) ==
  /\ {f.n : f \in Range1(S.form)} = ActIds(N)
  /\ NoDup([i \in DOMAIN S.form |-> S.form[i].n])
  /\ \A f \in Range1(S.form) :
        /\ NoDup(f.v)
        /\ Range1(f.v) = {v.id : v \in {w \in Range1(S.veh) : HasNode(w.n, f.n)}}
LimitsOK(N, S) ==
  /\ \A f \in Range1(S.form) : f.n \in ActIds(N) =>
        LET n == N.nd[f.n]
        IN /\ (n.k = "svc" /\ n.lim # -1) => Len(f.v) <= n.lim
           /\ n.k = "mnt" => Len(f.v) <= n.tracks
  /\ \A d \in RealDepotIds(N) :
        /\ N.depots[d].cap # -1 =>
              Cardinality({v \in Range1(S.veh) : StartDepotOf(N, v) = d}) <= N.depots[d].cap
        /\ \A ty \in N.types :
              LET c == DepotCapFor(N.depots[d], ty)
              IN c # -1 => Cardinality({v \in Range1(S.veh) : v.ty = ty /\ StartDepotOf(N, v) = d}) <= c
StrictlyIncreasing(s) == \A i \in 1..(Len(s) - 1) : s[i] < s[i + 1]
ListingsSorted(N, S) ==
  /\ NoDup([i \in DOMAIN S.veh |-> S.veh[i].id])
  /\ NoDup([i \in DOMAIN S.dum |-> S.dum[i].id])
  /\ \A ty \in N.types :
        LET ixs == [i \in DOMAIN SelectSeq(S.veh, LAMBDA v : v.ty = ty) |->
                       SelectSeq(S.veh, LAMBDA v : v.ty = ty)[i].ix]
        IN StrictlyIncreasing(ixs)
  /\ StrictlyIncreasing([i \in DOMAIN S.dum |-> S.dum[i].ix])
  /\ S.nveh = Len(S.veh) /\ S.ndum = Len(S.dum)
\* every real vehicle belongs to exactly one rotation cycle of its type; the successor probe
\* (vehicle -> cycle lookup) agrees with the cycles
CyclesPartitionOK(N, S) ==
  /\ {t.ty : t \in Range1(S.tr)} = N.types
  /\ \A t \in Range1(S.tr) :
        LET flat == FoldLeft(LAMBDA acc, c : acc \o c.v, << >>, t.cyc)
        IN /\ NoDup(flat)
           /\ Range1(flat) = VehOfType(S, t.ty)
           /\ \A e \in Range1(t.succ) :
                 \E c \in Range1(t.cyc) : \E k \in DOMAIN c.v :
                    c.v[k] = e.v /\ e.s = c.v[(k % Len(c.v)) + 1]
           /\ {e.v : e \in Range1(t.succ)} = VehOfType(S, t.ty)
SchedInv(N, S) ==
  /\ ToursOK(N, S) /\ DummiesOK(N, S) /\ FormationsOK(N, S) /\ LimitsOK(N, S)
  /\ ListingsSorted(N, S) /\ CyclesPartitionOK(N, S)

(***************************************************************************)
(* C09: caches equal recomputation                                         *)
(***************************************************************************)
TourCachesOK(N, v) ==
  /\ v.sd = ServiceDist(N, v.n)
  /\ v.dd = DeadHeadDist(N, v.n)
  /\ v.ud = UsefulDur(N, v.n)
  /\ v.c = TourCosts(N, v.n)
  /\ v.vm = VisitsMaint(N, v.n)
AllTourCachesOK(N, S) ==
  /\ \A v \in Range1(S.veh) : TourCachesOK(N, v) /\ v.mc = MaintCounter(N, v.n)
  /\ \A d \in Range1(S.dum) : TourCachesOK(N, d)

SchedCosts(N, S) ==
  SeqSum([i \in DOMAIN S.veh |-> TourCosts(N, S.veh[i].n)]) + Cardinality(SvcIds(N)) * N.I.costs.staff
FormCap(N, S, f)   == SeqSum([i \in DOMAIN f.v |-> TypeRec(N.I, TypeMap(S)[f.v[i]]).cap])
FormSeats(N, S, f) == SeqSum([i \in DOMAIN f.v |-> TypeRec(N.I, TypeMap(S)[f.v[i]]).seats])
SvcForms(N, S) == SelectSeq(S.form, LAMBDA f : f.n \in SvcIds(N))
UnservedP(N, S) == SeqSum([i \in DOMAIN SvcForms(N, S) |->
                      LET f == SvcForms(N, S)[i] IN Pos(N.nd[f.n].pax - FormCap(N, S, f))])
UnservedS(N, S) == SeqSum([i \in DOMAIN SvcForms(N, S) |->
                      LET f == SvcForms(N, S)[i] IN Pos(N.nd[f.n].seated - FormSeats(N, S, f))])
TypeViolation(N, S, ty) == Violation(N, TourMap(S), CyclesOf(S, ty))
SchedViolation(N, S) == SeqSum([i \in DOMAIN S.tr |-> TypeViolation(N, S, S.tr[i].ty)])

ScheduleCachesOK(N, S) ==
  /\ S.costs = SchedCosts(N, S)
  /\ S.unP = UnservedP(N, S) /\ S.unS = UnservedS(N, S)
ViolationCacheOK(N, S) == S.viol = SchedViolation(N, S)
TransitionCachesOK(N, S) ==
  \A t \in Range1(S.tr) :
     /\ \A c \in Range1(t.cyc) : c.c = CycleCounter(N, TourMap(S), c.v)
     /\ t.viol = Violation(N, TourMap(S), CyclesOf(S, t.ty))
     /\ t.cnt = CounterTotal(N, TourMap(S), CyclesOf(S, t.ty))
DepotCachesOK(N, S) ==
  \A e \in Range1(S.dep) :
     LET st == Cardinality({v \in Range1(S.veh) : v.ty = e.ty /\ StartDepotOf(N, v) = e.d})
         en == Cardinality({v \in Range1(S.veh) : v.ty = e.ty /\ EndDepotOf(N, v) = e.d})
     IN /\ e.sp = st /\ e.bal = st - en
        /\ e.tot = Cardinality({v \in Range1(S.veh) : StartDepotOf(N, v) = e.d})
CachesOK(N, S) ==
  /\ AllTourCachesOK(N, S) /\ ScheduleCachesOK(N, S) /\ ViolationCacheOK(N, S)
  /\ TransitionCachesOK(N, S) /\ DepotCachesOK(N, S)

(***************************************************************************)
(* Objective recomputed from the abstract content (never from the caches)  *)
(***************************************************************************)
Objective(N, S) ==
  <<UnservedP(N, S) + UnservedS(N, S), SchedViolation(N, S), Len(S.veh), SchedCosts(N, S)>>
CachedObjective(S) == <<S.unP + S.unS, S.viol, S.nveh, S.costs>>

\* abstract content used by the stage relations
ActsOfVeh(N, S) == [id \in VehIds(S) |-> Acts(N, TourMap(S)[id])]
FormMap(S) == [n \in {f.n : f \in Range1(S.form)} |-> FormOf(S, n)]
CycleSets(S) == [ty \in {t.ty : t \in Range1(S.tr)} |->
                   {c \in Range1(CyclesOf(S, ty)) : c # << >>}]
=============================================================================
