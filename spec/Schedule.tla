------------------------------ MODULE Schedule ------------------------------
(***************************************************************************)
(* Reference semantics of the public schedule modifications (C13, C12 on   *)
(* the schedule level) over an *abstract* schedule                         *)
(*                                                                         *)
(*   A = [ tours : vehicle id -> real tour,  vtype : vehicle id -> type,   *)
(*         dum   : dummy id   -> dummy tour,                               *)
(*         form  : activity id -> sequence of vehicle ids ]                *)
(*                                                                         *)
(* and the rotation cycles  cyc : type -> set of non-empty sequences.      *)
(* No caches, no maps, no indices.  Deterministic where the documentation  *)
(* is; relational (a set of allowed results) where the code is a heuristic *)
(* (depot choice, greedy fitting, cycle construction).  Every operator     *)
(* fixes the *whole* next abstract state, which yields the frame           *)
(* conditions "nothing else changes".                                      *)
(***************************************************************************)
EXTENDS Tour

EmptyFn == [x \in {} |-> << >>]
EmptySchedule(N) == [tours |-> EmptyFn, vtype |-> EmptyFn, dum |-> EmptyFn,
                     form |-> [n \in ActIds(N) |-> << >>]]
Drop(f, k) == [x \in DOMAIN f \ {k} |-> f[x]]
Put(f, k, v) == [x \in DOMAIN f \cup {k} |-> IF x = k THEN v ELSE f[x]]

RealIds(A) == DOMAIN A.tours
DummyIds(A) == DOMAIN A.dum
IsReal(A, v) == v \in RealIds(A)
IsDummy(A, v) == v \in DummyIds(A)
Exists(A, v) == IsReal(A, v) \/ IsDummy(A, v)
TourOfV(A, v) == IF IsReal(A, v) THEN A.tours[v] ELSE A.dum[v]
NodesOf(s) == Range1(s)
ActSet(N, s) == {x \in Range1(s) : ~IsDepotId(N, x)}

StartDepot(N, t) == N.nd[t[1]].depot
EndDepot(N, t) == N.nd[Last(t)].depot
Usage(N, A, d) == Cardinality({v \in RealIds(A) : StartDepot(N, A.tours[v]) = d})
UsageTy(N, A, d, ty) == Cardinality({v \in RealIds(A) : A.vtype[v] = ty /\ StartDepot(N, A.tours[v]) = d})
\* depot d can host one more starting vehicle of type ty (the overflow depot always can)
CanSpawn(N, A, d, ty) ==
  \/ d = OVERFLOW
  \/ LET c == DepotCapFor(N.depots[d], ty)
     IN /\ c # 0
        /\ (c = -1 \/ UsageTy(N, A, d, ty) < c)
        /\ (N.depots[d].cap = -1 \/ Usage(N, A, d) < N.depots[d].cap)
FormFull(N, A, n) ==
  \/ N.nd[n].k = "svc" /\ N.nd[n].lim # -1 /\ Len(A.form[n]) >= N.nd[n].lim
  \/ N.nd[n].k = "mnt" /\ Len(A.form[n]) >= N.nd[n].tracks

SdNodes(N) == {id \in Ids(N) : N.nd[id].k = "sd"}
EdNodes(N) == {id \in Ids(N) : N.nd[id].k = "ed"}

(* ---------------- formation bookkeeping ---------------- *)
SeqWithout(s, v) == SelectSeq(s, LAMBDA x : x # v)
InSeq(s, v) == \E i \in DOMAIN s : s[i] = v
ReplaceIn(s, old, new) == [i \in DOMAIN s |-> IF s[i] = old THEN new ELSE s[i]]
\* additions go to the tail, removals keep the order, a replacing vehicle takes the position
FormAdd(F, nodes, v) == [n \in DOMAIN F |-> IF n \in nodes /\ ~InSeq(F[n], v) THEN Append(F[n], v) ELSE F[n]]
FormDel(F, nodes, v) == [n \in DOMAIN F |-> IF n \in nodes THEN SeqWithout(F[n], v) ELSE F[n]]
FormRepl(F, nodes, old, new) ==
  [n \in DOMAIN F |-> IF n \in nodes THEN ReplaceIn(F[n], old, new) ELSE F[n]]

(***************************************************************************)
(* spawn_vehicle_for_path(ty, p) -> id                                     *)
(***************************************************************************)
SpawnPre(N, A, ty, p) ==
  /\ \A i \in DOMAIN p : p[i] \in Ids(N)
  /\ ValidPath(N, p)
  /\ \A i \in DOMAIN p : OfType(N, ty, p[i])
  /\ \A n \in ActSet(N, p) : ~FormFull(N, A, n)
SpawnRes(N, A, ty, p, id) ==
  LET acts    == Acts(N, p)
      givenS  == N.nd[p[1]].k = "sd"
      givenE  == N.nd[Last(p)].k = "ed"
      fallback == givenS /\ ~CanSpawn(N, A, N.nd[p[1]].depot, ty)
      realFree == {d \in RealDepotIds(N) : CanSpawn(N, A, d, ty)}
      sds == IF givenS THEN (IF fallback THEN {N.depots[OVERFLOW].sn} ELSE {p[1]})
             ELSE IF realFree # {} THEN {N.depots[d].sn : d \in realFree}
                  ELSE {N.depots[OVERFLOW].sn}
      eds == IF givenE /\ ~fallback THEN {Last(p)} ELSE EdNodes(N)
  IN { [A EXCEPT !.tours = Put(A.tours, id, <<s>> \o acts \o <<e>>),
                 !.vtype = Put(A.vtype, id, ty),
                 !.form  = FormAdd(A.form, ActSet(N, p), id)] : s \in sds, e \in eds }

(***************************************************************************)
(* replace_vehicle_by_dummy(v)   (new dummy id did, "" if none appears)    *)
(***************************************************************************)
DeleteReal(N, A, v) ==
  [A EXCEPT !.tours = Drop(A.tours, v), !.vtype = Drop(A.vtype, v),
            !.form = FormDel(A.form, ActSet(N, A.tours[v]), v)]
WithDummy(A, did, trips) == IF trips = << >> THEN A ELSE [A EXCEPT !.dum = Put(A.dum, did, trips)]
ReplaceByDummyRes(N, A, v, did) == WithDummy(DeleteReal(N, A, v), did, SvcOnly(N, A.tours[v]))

(***************************************************************************)
(* add_path_to_vehicle_tour(v, p) -> removed path                          *)
(***************************************************************************)
AddPathPre(N, A, v, p) ==
  /\ IsReal(A, v)
  /\ \A i \in DOMAIN p : p[i] \in Ids(N)
  /\ ValidPath(N, p)
  /\ \A i \in DOMAIN p : OfType(N, A.vtype[v], p[i])
  /\ (N.nd[p[1]].k = "sd" /\ p[1] # A.tours[v][1]) => CanSpawn(N, A, N.nd[p[1]].depot, A.vtype[v])
  /\ \A n \in ActSet(N, p) : ~FormFull(N, A, n)
AddPathIns(N, A, v, p) == InsertPath(N, A.tours[v], p, FALSE)
AddPathRes(N, A, v, p) ==
  LET ins == AddPathIns(N, A, v, p)
  IN [A EXCEPT !.tours = Put(A.tours, v, ins.tour),
               !.form = FormDel(FormAdd(A.form, ActSet(N, p), v), ActSet(N, ins.removed) \ ActSet(N, p), v)]
\* the conflict path is handed back (nothing if it holds no activity)
AddPathRet(N, A, v, p) ==
  LET r == AddPathIns(N, A, v, p).removed IN IF Acts(N, r) = << >> THEN << >> ELSE r

(***************************************************************************)
(* remove_segment((s, e), v)                                               *)
(***************************************************************************)
SegPre(N, t, dummy, s, e) ==
  /\ HasNode(t, s) /\ HasNode(t, e)
  /\ PosOf(t, s) <= PosOf(t, e)
  /\ Removable(N, t, dummy, PosOf(t, s), PosOf(t, e))
RemoveSegPre(N, A, v, s, e) == IsReal(A, v) /\ SegPre(N, A.tours[v], FALSE, s, e)
RemoveSegRes(N, A, v, s, e, did) ==
  LET t == A.tours[v]
      r == RemoveSeg(N, t, FALSE, PosOf(t, s), PosOf(t, e))
  IN IF r.tour = << >> THEN ReplaceByDummyRes(N, A, v, did)
     ELSE WithDummy([A EXCEPT !.tours = Put(A.tours, v, r.tour),
                              !.form = FormDel(A.form, ActSet(N, r.removed), v)],
                    did, SvcOnly(N, r.removed))

(***************************************************************************)
(* override_reassign((s, e), P, R) -> new dummy                            *)
(***************************************************************************)
TypeCompat(N, A, P, R, moved) ==
  IsReal(A, R) => \/ (IsReal(A, P) /\ A.vtype[P] = A.vtype[R])
                  \/ \A i \in DOMAIN moved : OfType(N, A.vtype[R], moved[i])
ReassignPre(N, A, P, R, s, e) ==
  /\ P # R /\ Exists(A, P) /\ Exists(A, R)
  /\ HasNode(TourOfV(A, P), s) /\ HasNode(TourOfV(A, P), e)
  /\ PosOf(TourOfV(A, P), s) <= PosOf(TourOfV(A, P), e)
Moved(A, P, s, e) == SubSeq(TourOfV(A, P), PosOf(TourOfV(A, P), s), PosOf(TourOfV(A, P), e))
\* set the tour of a vehicle or dummy (delete it when the tour is empty)
SetTour(N, A, v, t) ==
  IF IsReal(A, v)
    THEN IF t = << >> THEN [A EXCEPT !.tours = Drop(A.tours, v), !.vtype = Drop(A.vtype, v)]
         ELSE [A EXCEPT !.tours = Put(A.tours, v, t)]
    ELSE IF t = << >> THEN [A EXCEPT !.dum = Drop(A.dum, v)]
         ELSE [A EXCEPT !.dum = Put(A.dum, v, t)]
\* a segment that begins with the provider's start depot is the provider's whole tour: the provider
\* is deleted and the receiver starts at that depot from now on, which must be able to host a vehicle
\* of the receiver's type once the provider has left
TakeoverOK(N, A, P, R, s) ==
  (IsReal(A, R) /\ IsReal(A, P) /\ N.nd[s].k = "sd" /\ s # A.tours[R][1]) =>
      CanSpawn(N, SetTour(N, A, P, << >>), N.nd[s].depot, A.vtype[R])
OverridePre(N, A, P, R, s, e) ==
  /\ ReassignPre(N, A, P, R, s, e)
  /\ SegPre(N, TourOfV(A, P), IsDummy(A, P), s, e)
  /\ TypeCompat(N, A, P, R, Moved(A, P, s, e))
  /\ TakeoverOK(N, A, P, R, s)
  /\ (IsReal(A, R) /\ IsDummy(A, P)) =>
        \A n \in ActSet(N, Moved(A, P, s, e)) : ~FormFull(N, A, n)
\* formations after moving the activities M from P to R
MoveForm(N, A, F, P, R, M) ==
  IF IsReal(A, P) /\ IsReal(A, R) THEN
       [n \in DOMAIN F |-> IF n \in M
                             THEN IF InSeq(F[n], R) THEN SeqWithout(F[n], P) ELSE ReplaceIn(F[n], P, R)
                             ELSE F[n]]
  ELSE IF IsReal(A, R) THEN FormAdd(F, M, R)
  ELSE IF IsReal(A, P) THEN FormDel(F, M, P)
  ELSE F
OverrideRes(N, A, P, R, s, e, did) ==
  LET tp    == TourOfV(A, P)
      rem   == RemoveSeg(N, tp, IsDummy(A, P), PosOf(tp, s), PosOf(tp, e))
      ins   == InsertPath(N, TourOfV(A, R), rem.removed, IsDummy(A, R))
      M     == ActSet(N, rem.removed)
      A1    == SetTour(N, SetTour(N, A, P, rem.tour), R, ins.tour)
      F1    == MoveForm(N, A, A.form, P, R, M)
      F2    == IF IsReal(A, R) THEN FormDel(F1, ActSet(N, ins.removed) \ M, R) ELSE F1
  IN WithDummy([A1 EXCEPT !.form = F2], did, SvcOnly(N, ins.removed))
OverrideDisplaced(N, A, P, R, s, e) ==
  LET tp  == TourOfV(A, P)
      rem == RemoveSeg(N, tp, IsDummy(A, P), PosOf(tp, s), PosOf(tp, e))
  IN SvcOnly(N, InsertPath(N, TourOfV(A, R), rem.removed, IsDummy(A, R)).removed)

(***************************************************************************)
(* fit_reassign((s, e), P, R): relational.  B is the observed result.      *)
(***************************************************************************)
FitPre(N, A, P, R, s, e) ==
  /\ ReassignPre(N, A, P, R, s, e)
  /\ TypeCompat(N, A, P, R, Moved(A, P, s, e))
\* the nodes that left the provider
FitMoved(A, B, P, s, e) ==
  LET tp == TourOfV(A, P)
  IN IF Exists(B, P) THEN SelectSeq(tp, LAMBDA x : ~HasNode(TourOfV(B, P), x)) ELSE Moved(A, P, s, e)
FitOK(N, A, B, P, R, s, e) ==
  LET tp == TourOfV(A, P)
      tr == TourOfV(A, R)
      M  == FitMoved(A, B, P, s, e)
      MA == ActSet(N, M)
      seg == Moved(A, P, s, e)
  IN /\ Exists(B, R)
     /\ IsReal(B, R) = IsReal(A, R)
     \* moved nodes come from the segment only; the provider keeps the rest in order
     /\ Range1(M) \subseteq Range1(seg)
     /\ IF Exists(B, P) THEN /\ TourOfV(B, P) = SelectSeq(tp, LAMBDA x : ~InSeq(M, x))
                             /\ Acts(N, TourOfV(B, P)) # << >>
                             /\ IsReal(B, P) = IsReal(A, P)
        ELSE Acts(N, SelectSeq(tp, LAMBDA x : ~InSeq(seg, x))) = << >>
     \* the receiver loses nothing and gains exactly the moved activities
     /\ ActSet(N, TourOfV(B, R)) = ActSet(N, tr) \cup MA
     /\ NoDup(TourOfV(B, R))
     /\ IF IsReal(A, R) THEN ValidRealTour(N, TourOfV(B, R)) ELSE ValidDummyTour(N, TourOfV(B, R))
     \* a depot of the receiver changes only by taking over a moved depot of the provider
     /\ IsReal(A, R) =>
          /\ (TourOfV(B, R)[1] # tr[1] => InSeq(M, TourOfV(B, R)[1]))
          /\ (Last(TourOfV(B, R)) # Last(tr) => InSeq(M, Last(TourOfV(B, R))))
     \* everything else: other tours, types, dummies, formations
     /\ \A v \in RealIds(A) \ {P, R} : v \in RealIds(B) /\ B.tours[v] = A.tours[v]
     /\ RealIds(B) \subseteq RealIds(A) /\ DummyIds(B) \subseteq DummyIds(A)
     /\ \A v \in RealIds(B) : B.vtype[v] = A.vtype[v]
     /\ \A d \in DummyIds(A) \ {P, R} : d \in DummyIds(B) /\ B.dum[d] = A.dum[d]
     /\ B.form = MoveForm(N, A, A.form, P, R, MA)

(***************************************************************************)
(* depot-only operations, transitions                                      *)
(***************************************************************************)
SameButDepots(N, A, B, vs) ==
  /\ RealIds(B) = RealIds(A) /\ B.vtype = A.vtype /\ B.dum = A.dum /\ B.form = A.form
  /\ \A v \in RealIds(A) :
        /\ Acts(N, B.tours[v]) = Acts(N, A.tours[v])
        /\ Len(B.tours[v]) = Len(A.tours[v])
        /\ N.nd[B.tours[v][1]].k = "sd" /\ N.nd[Last(B.tours[v])].k = "ed"
        /\ v \notin vs => B.tours[v] = A.tours[v]
\* capacities hold for every real depot whose set of starting vehicles changed
NewStartsRespectCaps(N, A, B) ==
  \A d \in RealDepotIds(N) :
     ({v \in RealIds(B) : StartDepot(N, B.tours[v]) = d} # {v \in RealIds(A) : StartDepot(N, A.tours[v]) = d}) =>
        /\ N.depots[d].cap # -1 => Usage(N, B, d) <= N.depots[d].cap
        /\ \A ty \in N.types : LET c == DepotCapFor(N.depots[d], ty)
                               IN c # -1 => UsageTy(N, B, d, ty) <= c
ImproveDepotsOK(N, A, B, vs) == SameButDepots(N, A, B, vs) /\ NewStartsRespectCaps(N, A, B)
EndDepotsOnlyOK(N, A, B) ==
  /\ SameButDepots(N, A, B, RealIds(A))
  /\ \A v \in RealIds(A) : B.tours[v][1] = A.tours[v][1]

(* ---------------- rotation cycles: cyc = [type -> set of non-empty sequences] ---------------- *)
CycWithout(cs, V) == {SelectSeq(c, LAMBDA x : x \notin V) : c \in cs} \ {<< >>}
\* cycle membership is maintained: vehicles that disappeared leave their cycle, new vehicles
\* join some cycle, everybody else keeps cycle and position
CyclesMaintained(N, A, B, cycA, cycB) ==
  \A ty \in N.types :
     CycWithout(cycB[ty], RealIds(B) \ RealIds(A)) = CycWithout(cycA[ty], RealIds(A) \ RealIds(B))
CyclesSameExcept(N, cycA, cycB, tys) == \A ty \in N.types \ tys : cycB[ty] = cycA[ty]
SuccIn(cs, v) == LET c == CHOOSE c \in cs : InSeq(c, v)
                     k == PosOf(c, v)
                 IN c[(k % Len(c)) + 1]
AlignedOK(N, A, B, cycA) ==
  \A v \in RealIds(A) :
     EndDepot(N, B.tours[v]) = StartDepot(N, A.tours[SuccIn(cycA[A.vtype[v]], v)])
=============================================================================
