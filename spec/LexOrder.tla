------------------------------ MODULE LexOrder ------------------------------
(***************************************************************************)
(* The lexicographic order on objective vectors that C08 (and C15) speak   *)
(* about, with machine-checked proofs (TLAPS) that it is a strict order:   *)
(* irreflexive, asymmetric and transitive.  Hence a search that only       *)
(* accepts LexLess steps can never return to a schedule it has left, and   *)
(* "the result is never worse than the start" follows from the steps by    *)
(* transitivity - for vectors of any length and unbounded components.      *)
(***************************************************************************)
EXTENDS Integers, TLAPS

CONSTANT K
ASSUME KNat == K \in Nat

Idx == 1..K
Vec == [Idx -> Int]
LexLess(a, b) == \E i \in Idx : a[i] < b[i] /\ \A j \in Idx : j < i => a[j] = b[j]
LexLeq(a, b) == a = b \/ LexLess(a, b)

THEOREM Irreflexive == \A a \in Vec : ~LexLess(a, a)
  BY DEF LexLess, Vec, Idx

THEOREM Transitive == \A a, b, c \in Vec : LexLess(a, b) /\ LexLess(b, c) => LexLess(a, c)
<1> SUFFICES ASSUME NEW a \in Vec, NEW b \in Vec, NEW c \in Vec, LexLess(a, b), LexLess(b, c)
             PROVE LexLess(a, c)
    OBVIOUS
<1>1. PICK i \in Idx : a[i] < b[i] /\ \A j \in Idx : j < i => a[j] = b[j]
    BY DEF LexLess
<1>2. PICK k \in Idx : b[k] < c[k] /\ \A j \in Idx : j < k => b[j] = c[j]
    BY DEF LexLess
<1>3. CASE i <= k
  <2>1. a[i] < c[i]
      BY <1>1, <1>2, <1>3, KNat DEF Vec, Idx
  <2>2. \A j \in Idx : j < i => a[j] = c[j]
      BY <1>1, <1>2, <1>3, KNat DEF Vec, Idx
  <2> QED BY <2>1, <2>2 DEF LexLess
<1>4. CASE k < i
  <2>1. a[k] < c[k]
      BY <1>1, <1>2, <1>4, KNat DEF Vec, Idx
  <2>2. \A j \in Idx : j < k => a[j] = c[j]
      BY <1>1, <1>2, <1>4, KNat DEF Vec, Idx
  <2> QED BY <2>1, <2>2 DEF LexLess
<1> QED BY <1>3, <1>4, KNat DEF Idx

THEOREM Asymmetric == \A a, b \in Vec : LexLess(a, b) => ~LexLess(b, a)
  BY Irreflexive, Transitive

THEOREM LeqTransitive == \A a, b, c \in Vec : LexLeq(a, b) /\ LexLeq(b, c) => LexLeq(a, c)
  BY Transitive DEF LexLeq
=============================================================================
