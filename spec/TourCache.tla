------------------------------ MODULE TourCache ------------------------------
(***************************************************************************)
(* The per-tour caches *as state* with the delta formulas the              *)
(* implementation documents for insert_path, remove, replace_start_depot   *)
(* and replace_end_depot (solution/src/tour/modifications.rs), including   *)
(* the Infinity arithmetic of Distance (C09 at the design level).          *)
(*                                                                         *)
(* A cached tour is  [n, sd, dd, ud, c, vm].  Every operation computes the *)
(* new caches from the old ones by deltas; CacheLaws states that, starting *)
(* from exact caches, every operation yields exact caches again (the       *)
(* inductive step of "caches = recomputation"), for every tour, path and   *)
(* segment of a network.  It is checked on all tiny networks by Gen_Tour.  *)
(***************************************************************************)
EXTENDS Tour

Exact(N, t) == [n |-> t, sd |-> ServiceDist(N, t), dd |-> DeadHeadDist(N, t), ud |-> UsefulDur(N, t),
                c |-> TourCosts(N, t), vm |-> VisitsMaint(N, t)]

Dist(N, a, b) == DhDist(N, N.nd[a].l2, N.nd[b].l1)
Leg(N, a, b) == LegCost(N, N.nd[a], N.nd[b])
\* Distance::sub: Infinity - x = Infinity
DSub(a, b) == IF a = INF THEN INF ELSE a - b
NodeSum(N, s, f(_)) == SeqSum([i \in DOMAIN s |-> f(N.nd[s[i]])])
InnerDist(N, s) == SeqDSum([i \in 1..(Len(s) - 1) |-> Dist(N, s[i], s[i + 1])])
InnerLeg(N, s) == SeqSum([i \in 1..(Len(s) - 1) |-> Leg(N, s[i], s[i + 1])])

\* dead-head distance / costs attributed to the block t[sp+1 .. ep-1] including the legs into and
\* out of it (the leg t[sp] -> t[sp+1] alone if the block is empty and lies inside the tour)
SegDist(N, t, sp, ep) ==
  IF ep = sp + 1 THEN (IF sp = 0 \/ sp = Len(t) THEN 0 ELSE Dist(N, t[sp], t[sp + 1]))
  ELSE DAdd(DAdd(IF sp = 0 THEN 0 ELSE Dist(N, t[sp], t[sp + 1]), InnerDist(N, SubSeq(t, sp + 1, ep - 1))),
            IF ep = Len(t) + 1 THEN 0 ELSE Dist(N, t[ep - 1], t[ep]))
SegCost(N, t, sp, ep) ==
  IF ep = sp + 1 THEN (IF sp = 0 \/ sp = Len(t) THEN 0 ELSE Leg(N, t[sp], t[sp + 1]))
  ELSE (IF sp = 0 THEN 0 ELSE Leg(N, t[sp], t[sp + 1])) + InnerLeg(N, SubSeq(t, sp + 1, ep - 1))
       + (IF ep = Len(t) + 1 THEN 0 ELSE Leg(N, t[ep - 1], t[ep]))
       + NodeSum(N, SubSeq(t, sp + 1, ep - 1), LAMBDA n : NodeCost(N, n))
NewDist(N, t, p, sp, ep) ==
  DAdd(DAdd(IF sp = 0 THEN 0 ELSE Dist(N, t[sp], p[1]), InnerDist(N, p)),
       IF ep > Len(t) THEN 0 ELSE Dist(N, Last(p), t[ep]))
NewCost(N, t, p, sp, ep) ==
  (IF sp = 0 THEN 0 ELSE Leg(N, t[sp], p[1])) + InnerLeg(N, p)
  + (IF ep > Len(t) THEN 0 ELSE Leg(N, Last(p), t[ep])) + NodeSum(N, p, LAMBDA n : NodeCost(N, n))

\* insert_path: prefix length sp, suffix start ep (as InsertPath computes them)
InsertDelta(N, ct, path0, dummy) ==
  LET t    == ct.n
      r    == InsertPath(N, t, path0, dummy)
      p    == IF dummy THEN Acts(N, path0) ELSE path0
      k    == CHOOSE i \in 0..Len(t) : SubSeq(r.tour, 1, i) = SubSeq(t, 1, i) /\ SubSeq(r.tour, i + 1, i + Len(p)) = p
                                       /\ r.removed = SubSeq(t, i + 1, i + Len(r.removed))
      ep   == k + Len(r.removed) + 1
      rem  == r.removed
      dd0  == DAdd(DSub(ct.dd, SegDist(N, t, k, ep)), NewDist(N, t, p, k, ep))
  IN [ n  |-> r.tour,
       sd |-> ct.sd - NodeSum(N, rem, LAMBDA n : n.dist) + NodeSum(N, p, LAMBDA n : n.dist),
       \* the infinite part might have been replaced (overflow depot): recompute in that case
       dd |-> IF ct.dd = INF THEN DeadHeadDist(N, r.tour) ELSE dd0,
       ud |-> ct.ud - NodeSum(N, rem, NodeDur) + NodeSum(N, p, NodeDur),
       c  |-> ct.c - SegCost(N, t, k, ep) + NewCost(N, t, p, k, ep),
       vm |-> (\E i \in DOMAIN p : N.nd[p[i]].k = "mnt")
              \/ (ct.vm /\ (~(\E i \in DOMAIN rem : N.nd[rem[i]].k = "mnt")
                            \/ \E i \in DOMAIN r.tour : N.nd[r.tour[i]].k = "mnt")) ]

\* remove positions i..j (1-based)
RemoveDelta(N, ct, dummy, i, j) ==
  LET t   == ct.n
      r   == RemoveSeg(N, t, dummy, i, j)
      rem == r.removed
      gapD == IF i = 1 \/ j = Len(t) THEN 0 ELSE Dist(N, t[i - 1], t[j + 1])
      gapC == IF i = 1 \/ j = Len(t) THEN 0 ELSE Leg(N, t[i - 1], t[j + 1])
  IN [ n  |-> r.tour,
       sd |-> ct.sd - NodeSum(N, rem, LAMBDA n : n.dist),
       dd |-> DAdd(DSub(ct.dd, SegDist(N, t, i - 1, j + 1)), gapD),
       ud |-> ct.ud - NodeSum(N, rem, NodeDur),
       c  |-> ct.c - SegCost(N, t, i - 1, j + 1) + gapC,
       vm |-> ct.vm /\ (~(\E k \in DOMAIN rem : N.nd[rem[k]].k = "mnt")
                        \/ \E k \in DOMAIN r.tour : N.nd[r.tour[k]].k = "mnt") ]

ReplaceStartDelta(N, ct, d) ==
  LET t == ct.n
      nt == <<d>> \o Tail(t)
  IN [ct EXCEPT !.n = nt,
                !.dd = IF ct.dd = INF THEN DeadHeadDist(N, nt)
                       ELSE DAdd(DSub(ct.dd, Dist(N, t[1], t[2])), Dist(N, d, t[2])),
                !.c = ct.c - SecOr(DhTime(N, N.nd[t[1]].l2, N.nd[t[2]].l1), N.days) * N.I.costs.dh
                           + SecOr(DhTime(N, N.nd[d].l2, N.nd[t[2]].l1), N.days) * N.I.costs.dh]
ReplaceEndDelta(N, ct, d) ==
  LET t == ct.n
      m == Len(t)
      nt == SubSeq(t, 1, m - 1) \o <<d>>
  IN [ct EXCEPT !.n = nt,
                !.dd = IF ct.dd = INF THEN DeadHeadDist(N, nt)
                       ELSE DAdd(DSub(ct.dd, Dist(N, t[m - 1], t[m])), Dist(N, t[m - 1], d)),
                !.c = ct.c - SecOr(DhTime(N, N.nd[t[m - 1]].l2, N.nd[t[m]].l1), N.days) * N.I.costs.dh
                           + SecOr(DhTime(N, N.nd[t[m - 1]].l2, N.nd[d].l1), N.days) * N.I.costs.dh]

(* ---------------- the inductive step: exact caches stay exact ---------------- *)
CacheLaws(N, t, dummy, paths) ==
  LET ct == Exact(N, t)
  IN /\ \A p \in paths : InsertDelta(N, ct, p, dummy) = Exact(N, InsertPath(N, t, p, dummy).tour)
     /\ \A i, j \in DOMAIN t : (i <= j /\ Removable(N, t, dummy, i, j) /\ RemoveSeg(N, t, dummy, i, j).tour # << >>) =>
           RemoveDelta(N, ct, dummy, i, j) = Exact(N, RemoveSeg(N, t, dummy, i, j).tour)
     /\ ~dummy => /\ \A d \in {x \in Ids(N) : N.nd[x].k = "sd"} :
                        ReplaceStartDelta(N, ct, d) = Exact(N, <<d>> \o Tail(t))
                  /\ \A d \in {x \in Ids(N) : N.nd[x].k = "ed"} :
                        ReplaceEndDelta(N, ct, d) = Exact(N, SubSeq(t, 1, Len(t) - 1) \o <<d>>)
=============================================================================
