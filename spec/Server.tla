------------------------------- MODULE Server -------------------------------
(***************************************************************************)
(* The HTTP service (C18): clients issue requests one at a time; the       *)
(* server hands each accepted request to one of a fixed number of handler  *)
(* threads (the handler solves inline).  A handler that fails (malformed   *)
(* body: rejected by the JSON extractor; semantically invalid body: the    *)
(* handler panics and the connection is closed) gives its thread back.     *)
(* There is no shared mutable state between requests and no action that    *)
(* stops the server.                                                       *)
(***************************************************************************)
EXTENDS Naturals, Sequences, FiniteSets, TLC

CONSTANTS Req,      \* request ids
          Kind(_),  \* "health" | "valid" | "malformed" | "invalid"
          Order,    \* sequence (one entry per client) of sequences of request ids, issued in order
          Workers,  \* handler threads
          Record    \* keep the history of send / finish events (for emission)

VARIABLES st,     \* request -> "new" | "queued" | "running" | "done"
          resp,   \* request -> "none" | "healthy200" | "solution200" | "error4xx" | "closed"
          free,   \* idle handler threads
          up,     \* the server process is alive
          sched   \* history: the order of send / finish events (emitted for replay)
vars == <<st, resp, free, up, sched>>

Expected(r) ==
  CASE Kind(r) = "health" -> "healthy200"
    [] Kind(r) = "valid" -> "solution200"
    [] Kind(r) = "malformed" -> "error4xx"
    [] Kind(r) = "invalid" -> "closed"

ClientOf(r) == CHOOSE c \in DOMAIN Order : \E i \in DOMAIN Order[c] : Order[c][i] = r
PosIn(r) == CHOOSE i \in DOMAIN Order[ClientOf(r)] : Order[ClientOf(r)][i] = r
\* a client sends its next request only after the previous one was answered (or its connection closed)
MaySend(r) == st[r] = "new" /\ \A i \in 1..(PosIn(r) - 1) : st[Order[ClientOf(r)][i]] = "done"

Init == /\ st = [r \in Req |-> "new"] /\ resp = [r \in Req |-> "none"]
        /\ free = Workers /\ up = TRUE /\ sched = << >>
Send(r) == /\ up /\ MaySend(r)
           /\ st' = [st EXCEPT ![r] = "queued"]
           /\ sched' = IF Record THEN Append(sched, <<"send", r>>) ELSE sched
           /\ UNCHANGED <<resp, free, up>>
Start(r) == /\ up /\ st[r] = "queued" /\ free > 0
            /\ st' = [st EXCEPT ![r] = "running"] /\ free' = free - 1
            /\ UNCHANGED <<resp, up, sched>>
\* the answer depends on the request's own payload only; a failing handler frees its thread
Finish(r) == /\ up /\ st[r] = "running"
             /\ st' = [st EXCEPT ![r] = "done"]
             /\ resp' = [resp EXCEPT ![r] = Expected(r)]
             /\ free' = free + 1
             /\ sched' = IF Record THEN Append(sched, <<"finish", r>>) ELSE sched
             /\ UNCHANGED up
Next == \E r \in Req : Send(r) \/ Start(r) \/ Finish(r)
Spec == Init /\ [][Next]_vars /\ \A r \in Req : WF_vars(Start(r)) /\ WF_vars(Finish(r)) /\ WF_vars(Send(r))

TypeOK == /\ st \in [Req -> {"new", "queued", "running", "done"}]
          /\ free \in 0..Workers /\ up \in BOOLEAN
OwnAnswer == \A r \in Req : (st[r] = "done" => resp[r] = Expected(r)) /\ (st[r] # "done" => resp[r] = "none")
ServerStaysUp == up
ThreadsConserved == free + Cardinality({r \in Req : st[r] = "running"}) = Workers
\* every request that was sent is eventually answered - in particular /health, also while all
\* handler threads are busy solving
EveryRequestAnswered == \A r \in Req : (st[r] = "queued") ~> (st[r] = "done")
AllDone == \A r \in Req : st[r] = "done"
Termination == <>AllDone
=============================================================================
