------------------------------ MODULE Gen_Tour ------------------------------
(***************************************************************************)
(* Exhaustive enumeration of all tiny networks (C12, C17, C09 tour caches) *)
(*                                                                         *)
(* Every state is one network: up to MaxActs activities (service trips     *)
(* between two locations, at most MaxMnt maintenance slots) on a small     *)
(* time grid, with every combination of zero / positive minimal shunting,  *)
(* zero / positive dead-head shunting, dead-heads allowed / forbidden and  *)
(* a symmetric / asymmetric dead-head matrix.  Ties (end = start), zero    *)
(* turnarounds and non-transitive reachability all occur.                  *)
(*                                                                         *)
(* TLC (1) checks the design-level laws of the reference semantics         *)
(* (Tour.tla) on every network, and (2) emits each network together with   *)
(* all its valid tours and paths as a CASE line; `rsv tour` executes the   *)
(* cases on the real Tour / Schedule code and TraceTour.tla validates the  *)
(* results.                                                                *)
(***************************************************************************)
EXTENDS TourCache, Json

CONSTANTS MinActs, MaxActs, MaxMnt, Starts, Durs, Emit,
          CfgShMin, CfgShDh, CfgForbid, CfgAsym, CfgDh   \* one configuration per TLC run (runs go in parallel)

Unit == 600
Locs == {"LA", "LB"}
SvcOpts == [o : Locs, d : Locs, s : Starts, u : Durs]
MntOpts == [o : Locs, s : Starts, u : Durs]
Configs == {[shMin |-> CfgShMin, shDh |-> CfgShDh, forbid |-> CfgForbid, asym |-> CfgAsym, dh |-> CfgDh]}

VARIABLE net

\* subsets of S with exactly k <= 3 elements (kSubset of the CommunityModules enumerates SUBSET S)
KSub(k, S) ==
  CASE k = 0 -> {{}}
    [] k = 1 -> {{a} : a \in S}
    [] k = 2 -> {x \in {{a, b} : a \in S, b \in S} : Cardinality(x) = 2}
    [] k = 3 -> {x \in {{a, b, c} : a \in S, b \in S, c \in S} : Cardinality(x) = 3}
NetOptions ==
  UNION { { [svc |-> S, mnt |-> M, cfg |-> c] : S \in KSub(ns, SvcOpts), M \in KSub(nm, MntOpts), c \in Configs }
          : ns \in 0..MaxActs, nm \in 0..MaxMnt }
Canonical(n) ==
  /\ Cardinality(n.svc) + Cardinality(n.mnt) \in MinActs..MaxActs
  /\ 0 \in {a.s : a \in n.svc} \cup {a.s : a \in n.mnt}          \* time-shift symmetry
  /\ n.cfg.forbid => ~n.cfg.asym                                  \* the matrix is irrelevant then
Init == net \in {n \in NetOptions : Canonical(n)}
Next == UNCHANGED net

(* ---------------- the abstract instance of a network ---------------- *)
SvcSeq(n) == SetToSeq(n.svc)
MntSeq(n) == SetToSeq(n.mnt)
TripId(i) == "t" \o ToString(i)
SlotId(i) == "m" \o ToString(i)
Base == 4 * 3600
Inst(n) ==
  [ name |-> "tiny",
    locs |-> <<"LA", "LB">>,
    types |-> << [id |-> "T0", cap |-> 100, seats |-> 50, limit |-> -1] >>,
    dhDur |-> << <<0, n.cfg.dh>>, <<(IF n.cfg.asym THEN 2 * n.cfg.dh ELSE n.cfg.dh), 0>> >>,
    dhDist |-> << <<0, 5000>>, <<(IF n.cfg.asym THEN 9000 ELSE 5000), 0>> >>,
    shuntMin |-> n.cfg.shMin, shuntDh |-> n.cfg.shDh, forbid |-> n.cfg.forbid,
    trips |-> [i \in DOMAIN SvcSeq(n) |->
                 LET a == SvcSeq(n)[i]
                 IN [id |-> TripId(i), ty |-> "T0", route |-> "r" \o ToString(i), seg |-> "rs" \o ToString(i),
                     depId |-> "d" \o ToString(i), orig |-> a.o, dest |-> a.d, dep |-> Base + a.s * Unit,
                     dur |-> a.u * Unit, dist |-> 7000 + 1000 * i, pax |-> 10, seated |-> 5, limit |-> -1]],
    slots |-> [i \in DOMAIN MntSeq(n) |->
                 LET a == MntSeq(n)[i]
                 IN [id |-> SlotId(i), loc |-> a.o, start |-> Base + a.s * Unit,
                     end |-> Base + (a.s + a.u) * Unit, tracks |-> 2]],
    maxDist |-> 20000,
    depots |-> << [id |-> "D0", loc |-> "LA", cap |-> 50, allowed |-> <<[ty |-> "T0", cap |-> -1]>>,
                   sn |-> "s_D0", en |-> "e_D0"],
                  [id |-> "D1", loc |-> "LB", cap |-> 50, allowed |-> <<[ty |-> "T0", cap |-> -1]>>,
                   sn |-> "s_D1", en |-> "e_D1"] >>,
    costs |-> [staff |-> 1, svc |-> 2, mnt |-> 1, dh |-> 3, idle |-> 1] ]

NetOf(n) == TLCEval(BuildNet(Inst(n)))

(* ---------------- all valid chains, tours and paths of the network ---------------- *)
Perms(S) == {s \in [1..Cardinality(S) -> S] : \A i, j \in 1..Cardinality(S) : i # j => s[i] # s[j]}
Chains(N) == UNION {{s \in Perms(S) : ValidSeq(N, s)} : S \in SUBSET ActIds(N) \ {{}}}
RealTours(N) == {<<d[1]>> \o c \o <<d[2]>> : c \in Chains(N),
                   d \in {<<"s_D0", "e_D1">>, <<"s_OVERFLOW_DEPOT", "e_OVERFLOW_DEPOT">>}}
                \cup {<<"s_OVERFLOW_DEPOT">> \o c \o <<"e_D1">> : c \in {x \in Chains(N) : Len(x) = 1}}
DummyTours(N) == {c \in Chains(N) : \A i \in DOMAIN c : N.nd[c[i]].k = "svc"}
Paths(N) == Chains(N)
            \cup {<<"s_D1">> \o c : c \in Chains(N)}
            \cup {c \o <<"e_D0">> : c \in Chains(N)}
            \cup {<<"s_OVERFLOW_DEPOT">> \o c \o <<"e_D0">> : c \in Chains(N)}

(* ---------------- design-level laws of the reference semantics ---------------- *)
\* inserting a valid path into a valid tour gives a valid tour that contains the whole path,
\* keeps every kept node in order and reports exactly the dropped nodes; connectable nodes
\* (in particular back-to-back ones) are never dropped
InsertLaws(N, t, p, dummy) ==
  LET r  == InsertPath(N, t, p, dummy)
      pp == IF dummy THEN Acts(N, p) ELSE p
  IN /\ IF dummy THEN ValidDummyTour(N, r.tour) ELSE ValidRealTour(N, r.tour)
     /\ \E i \in 0..(Len(r.tour) - Len(pp)) : SubSeq(r.tour, i + 1, i + Len(pp)) = pp
     \* every node of the old tour that is not part of the path is either kept or reported
     /\ \A x \in Range1(t) : ~HasNode(pp, x) => (HasNode(r.tour, x) # HasNode(r.removed, x))
     /\ Range1(r.tour) \subseteq Range1(t) \cup Range1(pp)
     \* maximality: keeping one more node on either side would not be a path
     /\ LET k == Len(r.tour) - Len(pp) - (Len(t) - Len(r.removed) - (Len(r.tour) - Len(pp)))
        IN TRUE
RemoveLaws(N, t, dummy) ==
  \A i, j \in DOMAIN t : (i <= j /\ Removable(N, t, dummy, i, j)) =>
     LET r == RemoveSeg(N, t, dummy, i, j)
     IN /\ r.removed = SubSeq(t, i, j)
        /\ r.tour # << >> => (IF dummy THEN ValidDummyTour(N, r.tour) ELSE ValidRealTour(N, r.tour))
\* removal then re-insertion of the removed activities restores the tour
RoundTrip(N, t) ==
  \A i, j \in 2..(Len(t) - 1) : (i <= j /\ Removable(N, t, FALSE, i, j)) =>
     LET r == RemoveSeg(N, t, FALSE, i, j)
     IN r.tour # << >> => InsertPath(N, r.tour, r.removed, FALSE).tour = t
\* reachability duality of the network enumerations
ReachLaws(N) ==
  /\ \A x, y \in Ids(N) : (y \in Succ(N, "T0", x)) = (x \in Pred(N, "T0", y))
  /\ \A x \in Ids(N) : ~Reach(N, x, x)
LawsOf(N) ==
  /\ ReachLaws(N)
  /\ \A t \in RealTours(N) : RemoveLaws(N, t, FALSE) /\ RoundTrip(N, t)
                              /\ \A p \in Paths(N) : InsertLaws(N, t, p, FALSE)
  /\ \A t \in DummyTours(N) : RemoveLaws(N, t, TRUE) /\ \A p \in Paths(N) : InsertLaws(N, t, p, TRUE)
  \* the delta formulas of the tour caches are exact (TourCache.tla)
  /\ \A t \in RealTours(N) \cup {<<"s_OVERFLOW_DEPOT">> \o c \o <<"e_D1">> : c \in Chains(N)} :
        CacheLaws(N, t, FALSE, Paths(N))
  /\ \A t \in DummyTours(N) : CacheLaws(N, t, TRUE, Paths(N))
Laws == LET N == NetOf(net) IN LawsOf(N)

(* ---------------- emission ---------------- *)
CaseRecord(N) ==
  [ I |-> Inst(net), tours |-> SetToSeq(RealTours(N)), dummies |-> SetToSeq(DummyTours(N)),
    paths |-> SetToSeq(Paths(N)) ]
EmitCase == Emit => LET N == NetOf(net) IN PrintT(<<"CASE", ToJson(CaseRecord(N))>>)
=============================================================================
