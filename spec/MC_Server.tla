------------------------------ MODULE MC_Server ------------------------------
EXTENDS Naturals, Sequences, FiniteSets, TLC, Json
CONSTANTS MCWorkers, MCEmit, MCClients

\* three clients: health around a solve; malformed then a solve; invalid then a solve then health
FullOrder == << <<"h1", "v1", "h2">>, <<"m1", "v2">>, <<"x1", "v3", "h3">> >>
OrderM == SubSeq(FullOrder, 1, MCClients)
ReqM == UNION {{OrderM[c][i] : i \in DOMAIN OrderM[c]} : c \in DOMAIN OrderM}
KindM(r) == CASE r \in {"h1", "h2", "h3"} -> "health"
              [] r \in {"v1", "v2", "v3"} -> "valid"
              [] r = "m1" -> "malformed"
              [] r = "x1" -> "invalid"

VARIABLES st, resp, free, up, sched
S == INSTANCE Server WITH Req <- ReqM, Kind <- KindM, Order <- OrderM, Workers <- MCWorkers, Record <- MCEmit

MCSpec == S!Spec
MCInit == S!Init
MCNext == S!Next
MCTypeOK == S!TypeOK
MCOwnAnswer == S!OwnAnswer
MCServerStaysUp == S!ServerStaysUp
MCThreadsConserved == S!ThreadsConserved
MCEveryRequestAnswered == S!EveryRequestAnswered
MCTermination == S!Termination
MCEmitSchedule == (MCEmit /\ S!AllDone) => PrintT(<<"CASE", ToJson([sched |-> sched])>>)
=============================================================================
