-------------------------------- MODULE Net --------------------------------
(***************************************************************************)
(* Reference semantics of the network of a rolling-stock instance.         *)
(*                                                                         *)
(* Everything here is a function of the *abstract instance* I only (see    *)
(* DESIGN.md 4.2).  Nothing is derived from the implementation: the rules  *)
(* are transcribed from the README, the doc comments and the property      *)
(* statements C01/C17.                                                     *)
(*                                                                         *)
(* Conventions: times are integer seconds relative to the base day;        *)
(* INF = -1 stands for an infinite distance / duration; start depots live  *)
(* at EARLIEST, end depots at LATEST.                                      *)
(***************************************************************************)
EXTENDS Naturals, Integers, Sequences, FiniteSets, TLC, SequencesExt, FiniteSetsExt, Functions

INF      == -1
EARLIEST == -1
LATEST   == 1000000000
NOWHERE  == "NOWHERE"
OVERFLOW == "OVERFLOW_DEPOT"
InfDistance == 10000000   \* named deviation: INF_DISTANCE of model/src/base_types.rs
Limit100 == 100           \* named deviation: hidden upper bound for unlimited formations (MCF)

DAdd(a, b) == IF a = INF \/ b = INF THEN INF ELSE a + b
Max2(a, b) == IF a >= b THEN a ELSE b
Min2(a, b) == IF a <= b THEN a ELSE b
Pos(a)     == IF a > 0 THEN a ELSE 0
CeilDiv(a, b) == (a + b - 1) \div b
SeqSum(s)  == FoldLeft(LAMBDA acc, x : acc + x, 0, s)
SeqDSum(s) == FoldLeft(LAMBDA acc, x : DAdd(acc, x), 0, s)
SetSum(S, f(_)) == FoldSet(LAMBDA x, acc : acc + f(x), 0, S)
Range1(s) == {s[i] : i \in DOMAIN s}
NoDup(s)  == \A i, j \in DOMAIN s : i # j => s[i] # s[j]
OptMin(a, b) == IF a = -1 THEN b ELSE IF b = -1 THEN a ELSE Min2(a, b)   \* -1 = absent

LocIndex(I, name) == CHOOSE i \in DOMAIN I.locs : I.locs[i] = name

(***************************************************************************)
(* Derived network N == BuildNet(I)                                        *)
(***************************************************************************)
TypeRec(I, ty) == CHOOSE t \in Range1(I.types) : t.id = ty

\* number of vehicles required to serve a trip: passengers (zero counted as one) by capacity,
\* seated passengers by seats
Req(I, trip) ==
  LET t == TypeRec(I, trip.ty)
  IN Max2(CeilDiv(Max2(trip.pax, 1), t.cap), CeilDiv(trip.seated, t.seats))

\* formation limit: the smaller of the limits that are present (-1 = no limit)
TripLimit(I, trip) == OptMin(TypeRec(I, trip.ty).limit, trip.limit)

SvcNode(I, t) ==
  [ k |-> "svc", id |-> t.id, l1 |-> t.orig, l2 |-> t.dest, t1 |-> t.dep, t2 |-> t.dep + t.dur,
    dist |-> t.dist, ty |-> t.ty, pax |-> Max2(t.pax, 1), seated |-> t.seated,
    lim |-> TripLimit(I, t), req |-> Req(I, t), tracks |-> 0, depot |-> "-" ]
MntNode(s) ==
  [ k |-> "mnt", id |-> s.id, l1 |-> s.loc, l2 |-> s.loc, t1 |-> s.start, t2 |-> s.end,
    dist |-> 0, ty |-> "-", pax |-> 0, seated |-> 0, lim |-> -1, req |-> 0, tracks |-> s.tracks,
    depot |-> "-" ]
DepNode(kind, id, loc, depot) ==
  [ k |-> kind, id |-> id, l1 |-> loc, l2 |-> loc,
    t1 |-> IF kind = "sd" THEN EARLIEST ELSE LATEST, t2 |-> IF kind = "sd" THEN EARLIEST ELSE LATEST,
    dist |-> 0, ty |-> "-", pax |-> 0, seated |-> 0, lim |-> -1, req |-> 0, tracks |-> 0,
    depot |-> depot ]

\* depots of the instance (given, or the documented default: one unlimited depot per location;
\* already resolved by the renderer into I.depots) plus the artificial overflow depot
OverflowDepot(I) ==
  [ id |-> OVERFLOW, loc |-> NOWHERE, cap |-> -1,
    allowed |-> [i \in DOMAIN I.types |-> [ty |-> I.types[i].id, cap |-> -1]],
    sn |-> "s_" \o OVERFLOW, en |-> "e_" \o OVERFLOW ]
AllDepots(I) == Range1(I.depots) \cup {OverflowDepot(I)}

NodeSet(I) ==
     {SvcNode(I, I.trips[i]) : i \in DOMAIN I.trips}
  \cup {MntNode(I.slots[i]) : i \in DOMAIN I.slots}
  \cup {DepNode("sd", d.sn, d.loc, d.id) : d \in AllDepots(I)}
  \cup {DepNode("ed", d.en, d.loc, d.id) : d \in AllDepots(I)}

PlanningSeconds(I) ==
  LET starts == {I.trips[i].dep : i \in DOMAIN I.trips} \cup {I.slots[i].start : i \in DOMAIN I.slots}
      ends   == {I.trips[i].dep + I.trips[i].dur : i \in DOMAIN I.trips}
                  \cup {I.slots[i].end : i \in DOMAIN I.slots}
  IN IF starts = {} THEN 0 ELSE CeilDiv(Max(ends) - Min(starts), 86400) * 86400

\* capacity of depot d for type ty: 0 if the type is not listed; the type's own capacity capped
\* by the depot total; -1 = unlimited
DepotCapFor(d, ty) ==
  LET es == {e \in Range1(d.allowed) : e.ty = ty}
  IN IF es = {} THEN 0
     ELSE LET e == CHOOSE e \in es : TRUE IN OptMin(e.cap, d.cap)

BuildNet(I) ==
  LET ns == NodeSet(I)
  IN [ I     |-> I,
       nd    |-> [id \in {n.id : n \in ns} |-> CHOOSE n \in ns : n.id = id],
       types |-> {I.types[i].id : i \in DOMAIN I.types},
       depots |-> [id \in {d.id : d \in AllDepots(I)} |-> CHOOSE d \in AllDepots(I) : d.id = id],
       dhT   |-> [p \in Range1(I.locs) \X Range1(I.locs) |->
                     I.dhDur[LocIndex(I, p[1])][LocIndex(I, p[2])]],
       dhD   |-> [p \in Range1(I.locs) \X Range1(I.locs) |->
                     I.dhDist[LocIndex(I, p[1])][LocIndex(I, p[2])]],
       days  |-> PlanningSeconds(I) ]

Ids(N)      == DOMAIN N.nd
IsDepot(n)  == n.k \in {"sd", "ed"}
IsAct(n)    == n.k \in {"svc", "mnt"}
ActIds(N)   == {id \in Ids(N) : IsAct(N.nd[id])}
SvcIds(N)   == {id \in Ids(N) : N.nd[id].k = "svc"}
MntIds(N)   == {id \in Ids(N) : N.nd[id].k = "mnt"}
RealDepotIds(N) == DOMAIN N.depots \ {OVERFLOW}

DhTime(N, a, b) == IF a = NOWHERE \/ b = NOWHERE THEN INF ELSE N.dhT[<<a, b>>]
DhDist(N, a, b) == IF a = NOWHERE \/ b = NOWHERE THEN INF ELSE N.dhD[<<a, b>>]

(***************************************************************************)
(* The documented timing rule                                              *)
(***************************************************************************)
\* minimal turnaround between two nodes: minimal shunting when staying at the same location;
\* dead-head travel time plus dead-head shunting on each non-depot side otherwise
MinDur(N, a, b) ==
  IF a.l2 = b.l1
    THEN IF IsAct(a) /\ IsAct(b) THEN N.I.shuntMin ELSE 0
    ELSE DAdd(DhTime(N, a.l2, b.l1),
              (IF IsAct(a) THEN N.I.shuntDh ELSE 0) + (IF IsAct(b) THEN N.I.shuntDh ELSE 0))

CanReach(N, a, b) ==
  IF b.k = "sd" \/ a.k = "ed" THEN FALSE          \* nothing reaches a start depot, an end depot reaches nothing
  ELSE IF a.k = "sd" \/ b.k = "ed" THEN TRUE      \* a start depot reaches everything, everything reaches an end depot
  ELSE IF N.I.forbid /\ a.l2 # b.l1 THEN FALSE    \* no location change when dead-heads are forbidden
  ELSE LET d == MinDur(N, a, b) IN d # INF /\ a.t2 + d <= b.t1

Reach(N, x, y) == CanReach(N, N.nd[x], N.nd[y])

\* nodes a vehicle of type ty may visit: its own service trips, all slots, all depots
OfType(N, ty, id) == N.nd[id].k # "svc" \/ N.nd[id].ty = ty

Succ(N, ty, x) == {y \in Ids(N) : OfType(N, ty, y) /\ Reach(N, x, y)}
Pred(N, ty, x) == {y \in Ids(N) : OfType(N, ty, y) /\ Reach(N, y, x)}

(***************************************************************************)
(* C17: the loaded network (observation obs, logged by `rsv netdump` via   *)
(* public getters) encodes the instance and its reachability.              *)
(***************************************************************************)
ObsNode(obs, id) == CHOOSE n \in Range1(obs.nodes) : n.id = id

\* every node of the instance exists exactly once with the instance's own attributes
NodesOK(N, obs) ==
  /\ NoDup([i \in DOMAIN obs.nodes |-> obs.nodes[i].id])
  /\ {n.id : n \in Range1(obs.nodes)} = Ids(N)
  /\ \A n \in Range1(obs.nodes) :
       LET s == N.nd[n.id]
       IN /\ n.k = s.k /\ n.l1 = s.l1 /\ n.l2 = s.l2 /\ n.t1 = s.t1 /\ n.t2 = s.t2
          /\ n.dist = s.dist
          /\ s.k = "svc" => /\ n.ty = s.ty /\ n.pax = s.pax /\ n.seated = s.seated
                            /\ n.req = s.req
                            /\ n.dur = s.t2 - s.t1
          /\ s.k = "mnt" => n.tracks = s.tracks /\ n.dur = s.t2 - s.t1
          /\ IsDepot(s) => n.depot = s.depot
NetLimitsOK(N, obs) ==
  \A n \in Range1(obs.nodes) : N.nd[n.id].k = "svc" => n.lim = N.nd[n.id].lim

ListingsOK(N, obs) ==
  /\ \A e \in Range1(obs.svc) :
        /\ NoDup(e.l)
        /\ Range1(e.l) = {id \in SvcIds(N) : N.nd[id].ty = e.ty}
  /\ {e.ty : e \in Range1(obs.svc)} = N.types
  /\ NoDup(obs.mnt) /\ Range1(obs.mnt) = MntIds(N)
  /\ NoDup(obs.cover) /\ Range1(obs.cover) = ActIds(N)
  /\ Range1(obs.sdn) = {id \in Ids(N) : N.nd[id].k = "sd"}
  /\ Range1(obs.edn) = {id \in Ids(N) : N.nd[id].k = "ed"}
  /\ obs.nsvc = Cardinality(SvcIds(N))
  /\ obs.size = Cardinality(Ids(N))
  /\ obs.maint = (MntIds(N) # {})

\* upper bound on the number of vehicles any schedule the solver builds can contain
VehicleDemandBound(N) ==
    SetSum(SvcIds(N), LAMBDA id : IF N.nd[id].lim = -1 THEN N.nd[id].req ELSE Min2(N.nd[id].req, N.nd[id].lim))
  + SetSum(MntIds(N), LAMBDA id : N.nd[id].tracks)

\* the given depots with their total and per-type capacities (defaulted depots are unlimited:
\* their capacity can never be the binding constraint)
DepotsOK(N, obs) ==
  /\ {d.id : d \in Range1(obs.depots)} = DOMAIN N.depots
  /\ NoDup([i \in DOMAIN obs.depots |-> obs.depots[i].id])
  /\ obs.overflow.id = OVERFLOW
  /\ obs.overflow.sn = N.depots[OVERFLOW].sn /\ obs.overflow.en = N.depots[OVERFLOW].en
  /\ \A d \in Range1(obs.depots) :
       LET s == N.depots[d.id]
       IN /\ d.loc = s.loc /\ d.sn = s.sn /\ d.en = s.en
          /\ d.id # OVERFLOW =>
               /\ IF s.cap = -1 THEN d.cap >= VehicleDemandBound(N) ELSE d.cap = s.cap
               /\ \A c \in Range1(d.caps) :
                    LET sc == DepotCapFor(s, c.ty)
                    IN IF sc = -1 THEN c.cap >= VehicleDemandBound(N) ELSE c.cap = sc
               /\ {c.ty : c \in Range1(d.caps)} = N.types
\* the overflow depot can always host every vehicle
OverflowOK(N, obs) ==
  \A d \in Range1(obs.depots) : d.id = OVERFLOW =>
     /\ d.cap >= VehicleDemandBound(N)
     /\ \A c \in Range1(d.caps) : c.cap >= VehicleDemandBound(N)

DeadHeadsObsOK(N, obs) ==
  \A e \in Range1(obs.dh) : e[3] = DhTime(N, e[1], e[2]) /\ e[4] = DhDist(N, e[1], e[2])

ReachOK(N, obs) ==
  {<<e[1], e[2]>> : e \in Range1(obs.reach)} = {p \in Ids(N) \X Ids(N) : Reach(N, p[1], p[2])}
MinDurOK(N, obs) ==
  \A e \in Range1(obs.mindur) : e[3] = MinDur(N, N.nd[e[1]], N.nd[e[2]])

SuccOK(N, obs) ==
  \A e \in Range1(obs.succ) : NoDup(e.l) /\ Range1(e.l) = Succ(N, e.ty, e.n)
PredOK(N, obs) ==
  \A e \in Range1(obs.pred) : NoDup(e.l) /\ Range1(e.l) = Pred(N, e.ty, e.n)

ConfigOK(N, obs) ==
  /\ obs.days = N.days
  /\ obs.cfg.forbid = N.I.forbid /\ obs.cfg.shuntMin = N.I.shuntMin /\ obs.cfg.shuntDh = N.I.shuntDh
  /\ obs.cfg.maxDist = N.I.maxDist
  /\ obs.cfg.staff = N.I.costs.staff /\ obs.cfg.svc = N.I.costs.svc /\ obs.cfg.mnt = N.I.costs.mnt
  /\ obs.cfg.dh = N.I.costs.dh /\ obs.cfg.idle = N.I.costs.idle
  /\ {<<t.id, t.cap, t.seats, t.lim>> : t \in Range1(obs.types)}
       = {<<t.id, t.cap, t.seats, t.limit>> : t \in Range1(N.I.types)}

NetObsOK(N, obs) ==
  /\ NodesOK(N, obs) /\ NetLimitsOK(N, obs) /\ ListingsOK(N, obs)
  /\ DepotsOK(N, obs) /\ OverflowOK(N, obs)
  /\ DeadHeadsObsOK(N, obs) /\ ReachOK(N, obs) /\ MinDurOK(N, obs)
  /\ SuccOK(N, obs) /\ PredOK(N, obs) /\ ConfigOK(N, obs)
=============================================================================
