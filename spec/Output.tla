------------------------------- MODULE Output -------------------------------
(***************************************************************************)
(* Predicates over the projected answer O of a solve request (C01-C05,     *)
(* C07).  O is the returned JSON with ISO times parsed to integer seconds; *)
(* N is the reference network of the request's own instance.               *)
(*                                                                         *)
(*  O.obj   = [unserved, viol, nveh, costs]                                *)
(*  O.loads = seq of [depot, ty, n]                                        *)
(*  O.fleet = seq of [ty, vehicles: seq of [id, sd, ed, segs, slots, dhs], *)
(*                    cycles: seq of seq of vehicle ids]                   *)
(*  O.segs  = seq of [id, orig, dest, dep, arr, ty, form]                  *)
(*  O.slots = seq of [id, loc, start, end, form]                           *)
(*  O.dhs   = seq of [id, orig, dest, dep, arr, form]                      *)
(***************************************************************************)
EXTENDS Tour

Vehicles(O) == UNION {Range1(O.fleet[i].vehicles) : i \in DOMAIN O.fleet}
VehiclesOfType(O, ty) == UNION {Range1(O.fleet[i].vehicles) : i \in {j \in DOMAIN O.fleet : O.fleet[j].ty = ty}}
FleetOf(O, v) == CHOOSE i \in DOMAIN O.fleet : v \in Range1(O.fleet[i].vehicles)
TypeOfVeh(O, v) == O.fleet[FleetOf(O, v)].ty

ActIdsOf(v) == {v.segs[i].id : i \in DOMAIN v.segs} \cup {v.slots[i].id : i \in DOMAIN v.slots}

\* the vehicle's activities in chronological order (the vehicle view lists segments and slots
\* separately, each in tour order)
NodeBefore(N, x, y) ==
  \/ N.nd[x].t1 < N.nd[y].t1
  \/ (N.nd[x].t1 = N.nd[y].t1 /\ N.nd[x].t2 <= N.nd[y].t2)
Itin(N, v) == SetToSortSeq(ActIdsOf(v), LAMBDA x, y : NodeBefore(N, x, y))

KnownDepots(N, v) == v.sd \in DOMAIN N.depots /\ v.ed \in DOMAIN N.depots
KnownActs(N, v) == ActIdsOf(v) \subseteq ActIds(N)
\* the full tour of a vehicle: start depot node, activities, end depot node
TourOf(N, v) == <<N.depots[v.sd].sn>> \o Itin(N, v) \o <<N.depots[v.ed].en>>

WellFormed(N, O) ==
  /\ \A v \in Vehicles(O) : KnownDepots(N, v) /\ KnownActs(N, v)
  /\ \A v, w \in Vehicles(O) : v.id = w.id => v = w
  /\ NoDup([i \in DOMAIN O.fleet |-> O.fleet[i].ty])
  /\ \A i \in DOMAIN O.fleet : O.fleet[i].ty \in N.types
                                 /\ NoDup([j \in DOMAIN O.fleet[i].vehicles |-> O.fleet[i].vehicles[j].id])

(***************************************************************************)
(* C01: itineraries are time-, place- and type-feasible                    *)
(***************************************************************************)
VehicleFeasible(N, ty, v) ==
  /\ KnownDepots(N, v) /\ KnownActs(N, v)
  /\ ActIdsOf(v) # {}                                           \* at least one activity
  /\ Len(v.segs) + Len(v.slots) = Cardinality(ActIdsOf(v))      \* nothing listed twice
  /\ ValidRealTour(N, TourOf(N, v))                             \* chronological and connectable
  /\ \A i \in DOMAIN v.segs : N.nd[v.segs[i].id].k = "svc" /\ N.nd[v.segs[i].id].ty = ty
  /\ \A i \in DOMAIN v.slots : N.nd[v.slots[i].id].k = "mnt"
OutFeasible(N, O) ==
  \A i \in DOMAIN O.fleet : \A v \in Range1(O.fleet[i].vehicles) : VehicleFeasible(N, O.fleet[i].ty, v)

(***************************************************************************)
(* C02: formation, track and depot limits                                  *)
(***************************************************************************)
FormationLimitsOK(N, O) ==
  \A s \in Range1(O.segs) : s.id \in SvcIds(N) =>
     (N.nd[s.id].lim # -1 => Len(s.form) <= N.nd[s.id].lim)
TrackLimitsOK(N, O) ==
  \A s \in Range1(O.slots) : s.id \in MntIds(N) => Len(s.form) <= N.nd[s.id].tracks
StartCount(O, d) == Cardinality({v \in Vehicles(O) : v.sd = d})
StartCountTy(O, d, ty) == Cardinality({v \in VehiclesOfType(O, ty) : v.sd = d})
DepotLimitsOK(N, O) ==
  \A d \in RealDepotIds(N) :
     /\ N.depots[d].cap # -1 => StartCount(O, d) <= N.depots[d].cap
     /\ \A ty \in N.types :
          LET c == DepotCapFor(N.depots[d], ty) IN c # -1 => StartCountTy(O, d, ty) <= c
OutLimits(N, O) == FormationLimitsOK(N, O) /\ TrackLimitsOK(N, O) /\ DepotLimitsOK(N, O)

(***************************************************************************)
(* C03: complete output; vehicle view = trip view                          *)
(***************************************************************************)
OutComplete(N, O) ==
  /\ NoDup([i \in DOMAIN O.segs |-> O.segs[i].id])
  /\ {s.id : s \in Range1(O.segs)} = SvcIds(N)
  /\ \A s \in Range1(O.segs) : s.id \in SvcIds(N) =>
        LET n == N.nd[s.id]
        IN s.orig = n.l1 /\ s.dest = n.l2 /\ s.dep = n.t1 /\ s.arr = n.t2 /\ s.ty = n.ty
  /\ NoDup([i \in DOMAIN O.slots |-> O.slots[i].id])
  /\ {s.id : s \in Range1(O.slots)} = MntIds(N)
  /\ \A s \in Range1(O.slots) : s.id \in MntIds(N) =>
        LET n == N.nd[s.id] IN s.loc = n.l1 /\ s.start = n.t1 /\ s.end = n.t2
  \* the vehicle view repeats the input's own data as well
  /\ \A v \in Vehicles(O) :
        /\ \A i \in DOMAIN v.segs : v.segs[i].id \in SvcIds(N) =>
              LET n == N.nd[v.segs[i].id] e == v.segs[i]
              IN e.orig = n.l1 /\ e.dest = n.l2 /\ e.dep = n.t1 /\ e.arr = n.t2
        /\ \A i \in DOMAIN v.slots : v.slots[i].id \in MntIds(N) =>
              LET n == N.nd[v.slots[i].id] e == v.slots[i]
              IN e.loc = n.l1 /\ e.start = n.t1 /\ e.end = n.t2

ViewsAgree(N, O) ==
  /\ \A s \in Range1(O.segs) :
        /\ NoDup(s.form)
        /\ Range1(s.form) = {v.id : v \in {w \in Vehicles(O) : \E i \in DOMAIN w.segs : w.segs[i].id = s.id}}
  /\ \A s \in Range1(O.slots) :
        /\ NoDup(s.form)
        /\ Range1(s.form) = {v.id : v \in {w \in Vehicles(O) : \E i \in DOMAIN w.slots : w.slots[i].id = s.id}}
  /\ \A v \in Vehicles(O) : Len(v.segs) + Len(v.slots) = Cardinality(ActIdsOf(v))
  \* the trip view of dead-head trips lists exactly the vehicles' own dead-head trips
  /\ Len(O.dhs) = SetSum(Vehicles(O), LAMBDA v : Len(v.dhs))
  /\ \A v \in Vehicles(O) : \A i \in DOMAIN v.dhs :
        \E j \in DOMAIN O.dhs :
           /\ O.dhs[j].form = <<v.id>> /\ O.dhs[j].id = v.dhs[i].id
           /\ O.dhs[j].orig = v.dhs[i].orig /\ O.dhs[j].dest = v.dhs[i].dest
           /\ O.dhs[j].dep = v.dhs[i].dep /\ O.dhs[j].arr = v.dhs[i].arr

DepotLoadsOK(N, O) ==
  /\ \A e \in Range1(O.loads) : e.depot \in DOMAIN N.depots /\ e.ty \in N.types
                                  /\ e.n = StartCountTy(O, e.depot, e.ty)
  /\ \A d \in DOMAIN N.depots : \A ty \in N.types :
        StartCountTy(O, d, ty) > 0 => \E e \in Range1(O.loads) : e.depot = d /\ e.ty = ty
  /\ \A i, j \in DOMAIN O.loads : (O.loads[i].depot = O.loads[j].depot /\ O.loads[i].ty = O.loads[j].ty) => i = j

\* positions of the location changes of a tour
Changes(N, t) == SelectSeq([i \in 1..(Len(t) - 1) |-> i],
                           LAMBDA i : N.nd[t[i]].l2 # N.nd[t[i + 1]].l1)
DeadHeadsOK(N, O) ==
  \A v \in Vehicles(O) : (KnownDepots(N, v) /\ KnownActs(N, v)) =>
     LET t  == TourOf(N, v)
         ch == Changes(N, t)
     IN /\ Len(v.dhs) = Len(ch)
        /\ \A k \in DOMAIN ch :
             LET a == N.nd[t[ch[k]]]
                 b == N.nd[t[ch[k] + 1]]
                 e == v.dhs[k]
             IN /\ e.orig = a.l2 /\ e.dest = b.l1
                \* (a transfer from the start depot may begin before the first planning day: no lower bound there)
                /\ (IsDepot(a) \/ a.t2 <= e.dep) /\ e.dep <= e.arr /\ (IsDepot(b) \/ e.arr <= b.t1)

(***************************************************************************)
(* C04: the reported objective is the true value                           *)
(***************************************************************************)
UnservedAt(N, id, k) ==
  LET n == N.nd[id]
      t == TypeRec(N.I, n.ty)
  IN Pos(n.pax - k * t.cap) + Pos(n.seated - k * t.seats)
OutUnserved(N, O) == SeqSum([i \in DOMAIN O.segs |-> UnservedAt(N, O.segs[i].id, Len(O.segs[i].form))])
OutVehicleCount(O) == Cardinality(Vehicles(O))
OutCosts(N, O) ==
    SetSum(Vehicles(O), LAMBDA v : TourCosts(N, TourOf(N, v)))
  + Cardinality(SvcIds(N)) * N.I.costs.staff        \* named deviation StaffTermPerTrip
TourById(N, O) == [id \in {v.id : v \in Vehicles(O)} |-> TourOf(N, CHOOSE v \in Vehicles(O) : v.id = id)]
OutViolation(N, O) ==
  LET tb == TourById(N, O)
  IN SeqSum([i \in DOMAIN O.fleet |-> Violation(N, tb, O.fleet[i].cycles)])
ObjTrue(N, O) ==
  /\ O.obj.unserved = OutUnserved(N, O)
  /\ O.obj.nveh = OutVehicleCount(O)
  /\ O.obj.costs = OutCosts(N, O)
  /\ O.obj.viol = OutViolation(N, O)

(***************************************************************************)
(* C05: cyclically repeatable                                              *)
(***************************************************************************)
NonEmpty(cycles) == SelectSeq(cycles, LAMBDA c : c # << >>)
Flatten(seqs) == FoldLeft(LAMBDA acc, s : acc \o s, << >>, seqs)
VehById(O, id) == CHOOSE v \in Vehicles(O) : v.id = id
CyclesPartition(O) ==
  \A i \in DOMAIN O.fleet :
     LET flat == Flatten(O.fleet[i].cycles)
     IN NoDup(flat) /\ Range1(flat) = {v.id : v \in Range1(O.fleet[i].vehicles)}
CyclesAligned(O) ==
  \A i \in DOMAIN O.fleet : \A c \in Range1(NonEmpty(O.fleet[i].cycles)) :
     (\A k \in DOMAIN c : c[k] \in {v.id : v \in Vehicles(O)}) =>
     \A k \in DOMAIN c : VehById(O, c[k]).ed = VehById(O, c[(k % Len(c)) + 1]).sd
DepotsBalanced(N, O) ==
  \A d \in DOMAIN N.depots : \A i \in DOMAIN O.fleet :
     Cardinality({v \in Range1(O.fleet[i].vehicles) : v.sd = d})
       = Cardinality({v \in Range1(O.fleet[i].vehicles) : v.ed = d})
CyclesOK(N, O) == CyclesPartition(O) /\ CyclesAligned(O) /\ DepotsBalanced(N, O)

(***************************************************************************)
(* C07: demand covered as far as formation limits allow                    *)
(***************************************************************************)
NeededAt(N, id) == LET n == N.nd[id] IN IF n.lim = -1 THEN n.req ELSE Min2(n.req, n.lim)
LowerBoundUnserved(N) == SetSum(SvcIds(N), LAMBDA id : UnservedAt(N, id, NeededAt(N, id)))
CoverageOK(N, O) ==
  /\ \A s \in Range1(O.segs) : s.id \in SvcIds(N) =>
        LET n == N.nd[s.id]
        IN IF n.lim = -1 \/ n.req <= n.lim THEN Len(s.form) >= n.req ELSE Len(s.form) = n.lim
  /\ O.obj.unserved = LowerBoundUnserved(N)
=============================================================================
