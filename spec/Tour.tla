-------------------------------- MODULE Tour --------------------------------
(***************************************************************************)
(* Reference semantics of tours: validity, the insert / remove / sub-path  *)
(* edits (C12) and from-scratch definitions of every figure the            *)
(* implementation maintains incrementally (C09, C04).                      *)
(*                                                                         *)
(* A tour or path is a sequence of node ids of a network N (see Net.tla).  *)
(* A real tour is  start depot . activities . end depot ;  a dummy tour    *)
(* has no depots.                                                          *)
(***************************************************************************)
EXTENDS Net

Kind(N, x) == N.nd[x].k
IsDepotId(N, x) == IsDepot(N.nd[x])

\* consecutive nodes are connectable
ValidSeq(N, s) == \A i \in 1..(Len(s) - 1) : Reach(N, s[i], s[i + 1])

ValidRealTour(N, t) ==
  /\ Len(t) >= 3
  /\ Kind(N, t[1]) = "sd" /\ Kind(N, Last(t)) = "ed"
  /\ \A i \in 2..(Len(t) - 1) : ~IsDepotId(N, t[i])
  /\ ValidSeq(N, t)
ValidDummyTour(N, t) ==
  /\ Len(t) >= 1
  /\ \A i \in DOMAIN t : ~IsDepotId(N, t[i])
  /\ ValidSeq(N, t)
\* a path: non-empty node sequence, consecutive nodes connectable, at least one activity
\* (hence depots only as first / last element)
ValidPath(N, p) ==
  /\ Len(p) >= 1
  /\ ValidSeq(N, p)
  /\ \E i \in DOMAIN p : ~IsDepotId(N, p[i])

Acts(N, s)     == SelectSeq(s, LAMBDA x : ~IsDepotId(N, x))
SvcOnly(N, s)  == SelectSeq(s, LAMBDA x : Kind(N, x) = "svc")
PosOf(s, x)    == CHOOSE i \in DOMAIN s : s[i] = x
HasNode(s, x) == \E i \in DOMAIN s : s[i] = x

(***************************************************************************)
(* Insert (C12): longest prefix of the tour whose last node can reach the  *)
(* path, then the whole path, then the longest suffix whose first node the *)
(* path can reach.  A leading / trailing depot of the path replaces the    *)
(* tour's depot.  The dropped middle is reported.                          *)
(***************************************************************************)
\* length of the longest prefix of tour whose last node can reach x (0 = empty prefix)
PrefixLen(N, tour, x) ==
  LET R == {k \in DOMAIN tour : Reach(N, tour[k], x)}
  IN IF R = {} THEN 0 ELSE Max(R)
\* first position of the longest suffix whose first node is reached by x (Len+1 = empty suffix)
SuffixPos(N, tour, x) ==
  LET R == {k \in DOMAIN tour : Reach(N, x, tour[k])}
  IN IF R = {} THEN Len(tour) + 1 ELSE Min(R)

InsertPath(N, tour, path0, dummy) ==
  LET path == IF dummy THEN Acts(N, path0) ELSE path0
      f    == path[1]
      z    == Last(path)
      sp   == IF IsDepotId(N, f) THEN 0 ELSE PrefixLen(N, tour, f)
      ep0  == IF IsDepotId(N, z) THEN Len(tour) + 1 ELSE SuffixPos(N, tour, z)
      ep   == IF ep0 <= sp THEN sp + 1 ELSE ep0     \* (cannot happen for time-sorted valid tours)
  IN [ tour    |-> SubSeq(tour, 1, sp) \o path \o SubSeq(tour, ep, Len(tour)),
       removed |-> SubSeq(tour, sp + 1, ep - 1) ]

(***************************************************************************)
(* Remove (C12): positions i..j of the tour.                               *)
(***************************************************************************)
Removable(N, tour, dummy, i, j) ==
  /\ i <= j
  /\ dummy \/ ~(i = 1 /\ j <= Len(tour) - 2)          \* would strand the end depot
  /\ dummy \/ ~(j = Len(tour) /\ i >= 3)              \* would strand the start depot
  /\ (i > 1 /\ j < Len(tour)) => Reach(N, tour[i - 1], tour[j + 1])

\* result: the remaining tour (<< >> if no activity is left) and the removed nodes
RemoveSeg(N, tour, dummy, i, j) ==
  LET rest == SubSeq(tour, 1, i - 1) \o SubSeq(tour, j + 1, Len(tour))
  IN [ tour    |-> IF Acts(N, rest) = << >> THEN << >> ELSE rest,
       removed |-> SubSeq(tour, i, j) ]

SubPath(tour, i, j) == SubSeq(tour, i, j)

\* the nodes of tour that conflict with inserting the segment (first..last)
Conflict(N, tour, first, last, dummy) == InsertPath(N, tour, <<first, last>>, dummy).removed

(***************************************************************************)
(* From-scratch figures of a tour (C09 / C04)                              *)
(***************************************************************************)
NodeDur(n) == IF IsAct(n) THEN n.t2 - n.t1 ELSE 0

ServiceDist(N, t) == SeqSum([i \in DOMAIN t |-> N.nd[t[i]].dist])
DeadHeadDist(N, t) ==
  SeqDSum([i \in 1..(Len(t) - 1) |-> DhDist(N, N.nd[t[i]].l2, N.nd[t[i + 1]].l1)])
UsefulDur(N, t) == SeqSum([i \in DOMAIN t |-> NodeDur(N.nd[t[i]])])
VisitsMaint(N, t) == \E i \in DOMAIN t : Kind(N, t[i]) = "mnt"

\* an infinite dead-head duration (overflow depot) is costed with the planning period
SecOr(d, P) == IF d = INF THEN P ELSE d
Idle(N, a, b) ==
  IF a.k = "sd" \/ b.k = "ed" THEN 0
  ELSE LET d == DhTime(N, a.l2, b.l1)
       IN IF d = INF THEN N.days
          ELSE IF a.t2 + d <= b.t1 THEN b.t1 - (a.t2 + d) ELSE 0
NodeCost(N, n) ==
  NodeDur(n) * (CASE n.k = "svc" -> N.I.costs.svc [] n.k = "mnt" -> N.I.costs.mnt [] OTHER -> 0)
LegCost(N, a, b) ==
    SecOr(DhTime(N, a.l2, b.l1), N.days) * N.I.costs.dh + Idle(N, a, b) * N.I.costs.idle
TourCosts(N, t) ==
    SeqSum([i \in DOMAIN t |-> NodeCost(N, N.nd[t[i]])])
  + SeqSum([i \in 1..(Len(t) - 1) |-> LegCost(N, N.nd[t[i]], N.nd[t[i + 1]])])

TotalDistM(N, t) ==
  LET d == DAdd(ServiceDist(N, t), DeadHeadDist(N, t)) IN IF d = INF THEN InfDistance ELSE d
\* distance travelled minus one maintenance allowance if the tour visits a slot
MaintCounter(N, t) == TotalDistM(N, t) - (IF VisitsMaint(N, t) THEN N.I.maxDist ELSE 0)

(***************************************************************************)
(* Rotation cycles                                                         *)
(***************************************************************************)
DepotDistM(N, e, s) ==
  LET d == DhDist(N, N.nd[e].l2, N.nd[s].l1) IN IF d = INF THEN InfDistance ELSE d
\* cyc: sequence of vehicle ids; tourOf: vehicle id -> real tour
CycleCounter(N, tourOf, cyc) ==
  IF cyc = << >> THEN 0 ELSE
    SeqSum([i \in DOMAIN cyc |-> MaintCounter(N, tourOf[cyc[i]])])
  + SeqSum([i \in DOMAIN cyc |->
      LET tv == tourOf[cyc[i]]
          tw == tourOf[cyc[(i % Len(cyc)) + 1]]
      IN DepotDistM(N, Last(tv), tw[1])])
Violation(N, tourOf, cycles) ==
  SeqSum([c \in DOMAIN cycles |-> Pos(CycleCounter(N, tourOf, cycles[c]))])
CounterTotal(N, tourOf, cycles) ==
  SeqSum([c \in DOMAIN cycles |-> CycleCounter(N, tourOf, cycles[c])])

(***************************************************************************)
(* Objective order                                                         *)
(***************************************************************************)
LexLess(a, b) == \E i \in DOMAIN a : a[i] < b[i] /\ \A j \in 1..(i - 1) : a[j] = b[j]
LexLeq(a, b)  == a = b \/ LexLess(a, b)
=============================================================================
