----------------------------- MODULE MC_Schedule -----------------------------
(***************************************************************************)
(* The schedule state machine at the design level: the reference           *)
(* semantics of the public modifications (Schedule.tla) as actions over    *)
(* the abstract schedule, on a tiny instance, explored exhaustively.       *)
(*                                                                         *)
(* TLC checks that the reference semantics themselves never leave the      *)
(* structural invariant (C10 at the design level), that every result is a  *)
(* set of valid tours, and that on every reachable state whose end depots  *)
(* are aligned with the rotation the *projection to the answer format*     *)
(* satisfies the output predicates of Output.tla (C01, C02, C03, C05):     *)
(*        AbsInv /\ Aligned  =>  OutFeasible /\ OutLimits /\ ...           *)
(* so that the chain  implementation states  (trace validation)  \subseteq *)
(* specification states  (this model)  \subseteq  output properties  is    *)
(* closed.  The instance (JSON, env INSTANCE) is one of lib/mcinst.py.     *)
(***************************************************************************)
EXTENDS Schedule, Output, Json, IOUtils

CONSTANTS MaxReal, MaxDummy, MaxId,
          Det     \* TRUE: only actions whose result is fully determined by their arguments, and keep a history for replay

I0 == JsonDeserialize(IOEnv.INSTANCE)
N == TLCEval(BuildNet(I0))
TY == "T0"

VehName(i) == "veh_" \o ToString(i)
DumName(i) == "dummy_" \o ToString(i)

VARIABLES A,        \* abstract schedule [tours, vtype, dum, form]
          cyc,      \* rotation cycles of the single type: set of non-empty sequences
          nextid,   \* id counter (vehicles and dummies share it, as in the implementation)
          aligned,  \* TRUE right after the end depots were aligned with the cycles
          hist      \* (Det only) the calls that led here, for replay on the implementation
vars == <<A, cyc, nextid, aligned, hist>>
view == <<A, cyc, nextid, aligned>>
Log(op, args) == hist' = IF Det THEN Append(hist, [op |-> op, args |-> args]) ELSE hist
\* the id counter advances only when an id was handed out
Bump(A2) == IF VehName(nextid) \in RealIds(A2) \/ DumName(nextid) \in DummyIds(A2) THEN nextid + 1 ELSE nextid
FullPath(p) == N.nd[p[1]].k = "sd" /\ N.nd[Last(p)].k = "ed"

\* all chains of activities that are paths, with the optional depots of a path
Perms(S) == {s \in [1..Cardinality(S) -> S] : \A i, j \in 1..Cardinality(S) : i # j => s[i] # s[j]}
Chains == TLCEval(UNION {{s \in Perms(S) : ValidSeq(N, s)} : S \in SUBSET ActIds(N) \ {{}}})
PathsAll == TLCEval(Chains \cup {<<s>> \o c : s \in SdNodes(N), c \in Chains}
                          \cup {c \o <<e>> : c \in Chains, e \in EdNodes(N)})

(* ---------------- structural invariant on the abstract state ---------------- *)
CycFlat == UNION {Range1(c) : c \in cyc}
AbsInv ==
  /\ \A v \in RealIds(A) : /\ ValidRealTour(N, A.tours[v]) /\ NoDup(A.tours[v])
                           /\ \A i \in 2..(Len(A.tours[v]) - 1) : OfType(N, A.vtype[v], A.tours[v][i])
  /\ \A n \in ActIds(N) : /\ NoDup(A.form[n])
                          /\ Range1(A.form[n]) = {v \in RealIds(A) : HasNode(A.tours[v], n)}
  /\ \A n \in ActIds(N) : /\ (N.nd[n].k = "svc" /\ N.nd[n].lim # -1) => Len(A.form[n]) <= N.nd[n].lim
                          /\ N.nd[n].k = "mnt" => Len(A.form[n]) <= N.nd[n].tracks
  /\ \A d \in RealDepotIds(N) :
        /\ N.depots[d].cap # -1 => Usage(N, A, d) <= N.depots[d].cap
        /\ LET c == DepotCapFor(N.depots[d], TY) IN c # -1 => UsageTy(N, A, d, TY) <= c
  /\ \A d \in DummyIds(A) : A.dum[d] # << >> /\ \A i \in DOMAIN A.dum[d] : A.dum[d][i] \in ActIds(N)
  \* every real vehicle belongs to exactly one rotation cycle
  /\ CycFlat = RealIds(A)
  /\ \A c \in cyc : NoDup(c) /\ c # << >>
  /\ \A c1, c2 \in cyc : c1 # c2 => Range1(c1) \cap Range1(c2) = {}

(* ---------------- actions: the public modifications ---------------- *)
Fresh == nextid < MaxId
Room == Cardinality(RealIds(A)) < MaxReal
DummyRoom == Cardinality(DummyIds(A)) < MaxDummy
CycDrop(V) == CycWithout(cyc, V)

PathsFull == TLCEval({<<s>> \o c \o <<e>> : s \in SdNodes(N), c \in Chains, e \in EdNodes(N)})
Spawn ==
  /\ Fresh /\ Room
  /\ \E p \in (IF Det THEN PathsFull ELSE PathsAll) :
       /\ SpawnPre(N, A, TY, p)
       /\ Det => CanSpawn(N, A, N.nd[p[1]].depot, TY)      \* no overflow fallback: the result is p itself
       /\ \E X \in SpawnRes(N, A, TY, p, VehName(nextid)) : A' = X
       /\ cyc' = cyc \cup {<<VehName(nextid)>>}
       /\ Log("spawn_vehicle_for_path", [ty |-> TY, path |-> p])
  /\ nextid' = nextid + 1 /\ aligned' = FALSE

SpawnForDummy ==
  /\ ~Det /\ Fresh /\ Room /\ UNCHANGED hist
  /\ \E d \in DummyIds(A) :
       LET A0 == [A EXCEPT !.dum = Drop(A.dum, d)]
       IN /\ SpawnPre(N, A0, TY, A.dum[d])
          /\ \E X \in SpawnRes(N, A0, TY, A.dum[d], VehName(nextid)) : A' = X
          /\ cyc' = cyc \cup {<<VehName(nextid)>>}
  /\ nextid' = nextid + 1 /\ aligned' = FALSE

ReplaceByDummy ==
  /\ Fresh /\ DummyRoom
  /\ \E v \in RealIds(A) :
       /\ A' = ReplaceByDummyRes(N, A, v, DumName(nextid))
       /\ cyc' = CycDrop({v})
       /\ Log("replace_vehicle_by_dummy", [v |-> v])
  /\ nextid' = Bump(A') /\ aligned' = FALSE

AddPath ==
  /\ \E v \in RealIds(A), p \in PathsAll :
       /\ AddPathPre(N, A, v, p)
       /\ ActSet(N, p) \cap ActSet(N, A.tours[v]) = {}
       /\ A' = AddPathRes(N, A, v, p)
       /\ Log("add_path_to_vehicle_tour", [v |-> v, path |-> p])
  /\ UNCHANGED <<cyc, nextid>> /\ aligned' = FALSE

RemoveSegment ==
  /\ Fresh /\ DummyRoom
  /\ \E v \in RealIds(A) : \E s, e \in Range1(A.tours[v]) :
       /\ RemoveSegPre(N, A, v, s, e)
       /\ ActSet(N, Moved(A, v, s, e)) # {}
       /\ A' = RemoveSegRes(N, A, v, s, e, DumName(nextid))
       /\ cyc' = CycDrop(RealIds(A) \ RealIds(A'))
       /\ Log("remove_segment", [v |-> v, s |-> s, e |-> e])
  /\ nextid' = Bump(A') /\ aligned' = FALSE

Override ==
  /\ Fresh /\ DummyRoom
  /\ \E P \in RealIds(A) \cup DummyIds(A), R \in RealIds(A) \cup DummyIds(A) :
     \E s, e \in Range1(TourOfV(A, P)) :
       /\ OverridePre(N, A, P, R, s, e)
       /\ ActSet(N, Moved(A, P, s, e)) # {}
       /\ IsReal(A, R) => ActSet(N, Moved(A, P, s, e)) \cap ActSet(N, A.tours[R]) = {}
       \* (the capacity of a start depot taken over from a deleted provider of the same type is free)
       /\ A' = OverrideRes(N, A, P, R, s, e, DumName(nextid))
       /\ cyc' = CycDrop(RealIds(A) \ RealIds(A'))
       /\ Log("override_reassign", [p |-> P, r |-> R, s |-> s, e |-> e])
  /\ nextid' = Bump(A') /\ aligned' = FALSE

\* improve_depots of one vehicle: some start depot with free capacity, some end depot
ImproveDepots ==
  /\ ~Det /\ UNCHANGED hist
  /\ \E v \in RealIds(A) :
       LET t  == A.tours[v]
           A0 == [A EXCEPT !.tours = Drop(A.tours, v), !.vtype = Drop(A.vtype, v)]   \* v's slot is free
       IN \E d \in DOMAIN N.depots, e \in EdNodes(N) :
            /\ CanSpawn(N, A0, d, TY)
            /\ A' = [A EXCEPT !.tours = Put(A.tours, v, <<N.depots[d].sn>> \o Acts(N, t) \o <<e>>)]
  /\ UNCHANGED <<cyc, nextid>> /\ aligned' = FALSE

\* recompute_transitions: some partition (here: one cycle in id order, or all singletons)
OneCycle == IF RealIds(A) = {} THEN {} ELSE {SetToSortSeq(RealIds(A), LAMBDA x, y : TRUE)}
Recompute ==
  /\ ~Det /\ UNCHANGED hist
  /\ cyc' \in {OneCycle, {<<v>> : v \in RealIds(A)}}
  /\ UNCHANGED <<A, nextid>> /\ aligned' = FALSE

\* reassign_end_depots_consistent_with_transitions
Align ==
  /\ RealIds(A) # {}
  /\ A' = [A EXCEPT !.tours = [v \in RealIds(A) |->
              SubSeq(A.tours[v], 1, Len(A.tours[v]) - 1)
                \o <<N.depots[StartDepot(N, A.tours[SuccIn(cyc, v)])].en>>]]
  /\ Log("reassign_end_depots_consistent_with_transitions", [none |-> 0])
  /\ aligned' = TRUE /\ UNCHANGED <<cyc, nextid>>

Init == A = EmptySchedule(N) /\ cyc = {} /\ nextid = 0 /\ aligned = FALSE /\ hist = << >>
Next == Spawn \/ SpawnForDummy \/ ReplaceByDummy \/ AddPath \/ RemoveSegment \/ Override
          \/ ImproveDepots \/ Recompute \/ Align
Spec == Init /\ [][Next]_vars

(* ---------------- projection to the answer format and the output predicates ---------------- *)
SegRec(x) == [id |-> x, orig |-> N.nd[x].l1, dest |-> N.nd[x].l2, dep |-> N.nd[x].t1, arr |-> N.nd[x].t2]
SlotRec(x) == [id |-> x, loc |-> N.nd[x].l1, start |-> N.nd[x].t1, end |-> N.nd[x].t2]
VehRecOut(v) ==
  LET t == A.tours[v]
  IN [ id |-> v, sd |-> StartDepot(N, t), ed |-> EndDepot(N, t),
       segs |-> [i \in DOMAIN SvcOnly(N, t) |-> SegRec(SvcOnly(N, t)[i])],
       slots |-> [i \in DOMAIN SelectSeq(t, LAMBDA x : N.nd[x].k = "mnt") |->
                    SlotRec(SelectSeq(t, LAMBDA x : N.nd[x].k = "mnt")[i])],
       dhs |-> << >> ]
Projection ==
  [ obj |-> [unserved |-> 0, viol |-> 0, nveh |-> Cardinality(RealIds(A)), costs |-> 0],
    loads |-> << >>,
    fleet |-> << [ty |-> TY, vehicles |-> [i \in DOMAIN SetToSeq(RealIds(A)) |-> VehRecOut(SetToSeq(RealIds(A))[i])],
                  cycles |-> SetToSeq(cyc)] >>,
    segs |-> [i \in DOMAIN SetToSeq(SvcIds(N)) |->
                LET x == SetToSeq(SvcIds(N))[i]
                IN [id |-> x, orig |-> N.nd[x].l1, dest |-> N.nd[x].l2, dep |-> N.nd[x].t1, arr |-> N.nd[x].t2,
                    ty |-> N.nd[x].ty, form |-> A.form[x]]],
    slots |-> [i \in DOMAIN SetToSeq(MntIds(N)) |->
                LET x == SetToSeq(MntIds(N))[i]
                IN [id |-> x, loc |-> N.nd[x].l1, start |-> N.nd[x].t1, end |-> N.nd[x].t2, form |-> A.form[x]]],
    dhs |-> << >> ]

\* AbsInv => the answer is feasible, within limits, complete and consistent in both views
OutputFromInv ==
  LET O == Projection
  IN /\ OutFeasible(N, O) /\ OutLimits(N, O) /\ OutComplete(N, O)
     /\ \A s \in Range1(O.segs) : NoDup(s.form) /\
           Range1(s.form) = {v.id : v \in {w \in Vehicles(O) : \E i \in DOMAIN w.segs : w.segs[i].id = s.id}}
     /\ CyclesPartition(O)
\* ... and, once end depots are aligned, cyclically repeatable
OutputWhenAligned == aligned => (CyclesAligned(Projection) /\ DepotsBalanced(N, Projection))
\* every explored state with one history of fully determined calls reaching it (replayed on the
\* real Schedule; the observed abstract state must equal the model state)
EmitCase == Det => PrintT(<<"CASE", ToJson([hist |-> hist, A |-> A, cyc |-> SetToSeq(cyc)])>>)
=============================================================================
