"""C15 corpus: MC_Transition (TLC) explores the rotation bookkeeping model and emits histories;
rsv trans replays them on the real Transition; TraceTrans validates."""
import json
import os
import time

import common
import gen


def pool_instance():
    """A fixed small instance providing tours with distinct counters and depots (asymmetric
    depot distances, a maintenance slot, the overflow depot)."""
    locs = ["LA", "LB", "LC"]
    I = {
        "name": "transpool", "profile": "pool", "locs": locs,
        "types": [{"id": "T0", "cap": 100, "seats": 50, "limit": -1}],
        "dhDur": [[0, 600, 1200], [900, 0, 600], [1200, 600, 0]],
        "dhDist": [[0, 4000, 9000], [5000, 0, 6000], [9000, 7000, 0]],
        "shuntMin": 60, "shuntDh": 60, "forbid": False,
        "trips": [], "slots": [{"id": "m0", "loc": "LB", "start": 16 * 3600, "end": 17 * 3600, "tracks": 4}],
        "maxDist": 100000,
        "depots": [{"id": "D%d" % i, "loc": l, "cap": 20, "allowed": [{"ty": "T0", "cap": -1}],
                    "sn": "s_D%d" % i, "en": "e_D%d" % i} for i, l in enumerate(locs)],
        "costs": {"staff": 1, "svc": 2, "mnt": 1, "dh": 3, "idle": 1},
    }
    spec = [("LA", "LB", 8, 30000), ("LB", "LC", 10, 25000), ("LC", "LA", 12, 40000), ("LA", "LC", 14, 35000)]
    for i, (o, d, h, dist) in enumerate(spec):
        I["trips"].append({"id": "t%d" % i, "ty": "T0", "route": "r%d" % i, "seg": "rs%d" % i, "depId": "d%d" % i,
                           "orig": o, "dest": d, "dep": h * 3600, "dur": 3600, "dist": dist, "pax": 10,
                           "seated": 5, "limit": -1})
    I = gen.complete_view(I, name="transpool")
    veh = [
        {"id": "veh_0", "ix": 0, "alts": [["s_D0", "t0", "e_D1"], ["s_D1", "t0", "m0", "e_D0"]]},
        {"id": "veh_1", "ix": 1, "alts": [["s_D1", "t1", "e_D2"], ["s_OVERFLOW_DEPOT", "t1", "e_OVERFLOW_DEPOT"]]},
        {"id": "veh_2", "ix": 2, "alts": [["s_D2", "t2", "e_D0"], ["s_D0", "t2", "m0", "e_D2"]]},
        {"id": "veh_3", "ix": 3, "alts": [["s_D0", "t3", "e_D2"], ["s_D2", "t3", "e_D0"]]},
    ]
    return I, veh, ["s_D1", "m0", "e_D1"]


def run_model(out, nveh, max_hist, max_cycles=4, emit=True, workers=None, timeout=3000):
    I, veh, probe = pool_instance()
    veh = veh[:nveh]
    d = os.path.join(common.WORK, "trans_%d" % os.getpid())
    os.makedirs(d, exist_ok=True)
    pool_path = os.path.join(d, "pool.json")
    with open(pool_path, "w") as f:
        json.dump({"I": gen.spec_view(I), "veh": veh}, f)
    res = common.run_tlc("MC_Transition", invariants=["MCTransInv", "MCEmitCase"], init="MCInit", nxt="MCNext",
                         view="MCView", constants={"MCMaxCycles": str(max_cycles), "MCMaxHist": str(max_hist),
                                                   "MCEmit": "TRUE" if emit else "FALSE"},
                         extra_env={"POOL": pool_path}, workers=workers, timeout=timeout, cont=False, xmx="8g")
    out.add_tlc("MC_Transition(veh=%d,hist<=%d)" % (nveh, max_hist), res)
    if res.violations:
        raise common.ToolError("TransInv violated on the model itself: %s" % res.violations[0])
    cases = []
    for line in res.output.splitlines():
        if line.startswith('<<"CASE", '):
            cases.append(json.loads(json.loads(line[len('<<"CASE", '):-2])))
    os.remove(pool_path)
    os.rmdir(d)
    return I, veh, probe, cases


def execute(I, veh, probe, cases, shards=None):
    shards = shards or max(1, min(common.NCPU - 2, (len(cases) + 199) // 200))
    workdir = os.path.join(common.WORK, "transx_%d" % os.getpid())
    os.makedirs(workdir, exist_ok=True)
    common.build_harness("release")
    from concurrent.futures import ThreadPoolExecutor
    head = {"pool": {"input": gen.render(I), "veh": veh, "probe": probe}}
    numbered = [dict(c, case=k) for k, c in enumerate(cases)]
    parts = [numbered[i::shards] for i in range(shards)]

    def one(k):
        inp = os.path.join(workdir, "in_%d.ndjson" % k)
        outp = os.path.join(workdir, "out_%d.ndjson" % k)
        common.write_ndjson(inp, [head] + [{"case": c["case"], "hist": c["hist"], "next": c["next"]} for c in parts[k]])
        rc, err = common.run_harness("trans", ["--in", inp, "--out", outp], timeout=3000, threads=1)
        evs = common.read_ndjson(outp)
        for p in (inp, outp):
            if os.path.exists(p):
                os.remove(p)
        if rc != 0:
            raise common.ToolError("rsv trans failed rc=%s %s" % (rc, err[-800:]))
        return evs

    with ThreadPoolExecutor(max_workers=shards) as ex:
        outs = list(ex.map(one, range(shards)))
    os.rmdir(workdir)
    by_case = {}
    for evs in outs:
        for e in evs:
            by_case.setdefault(e["case"], []).append(e)
    return by_case


def build_traces(I, veh, cases, by_case, d, max_events=6000):
    chunks, index = [], []
    head = {"ev": "pool", "I": gen.spec_view(I), "veh": veh}
    trace, idx = [head], []

    def flush():
        nonlocal trace, idx
        if len(trace) > 1:
            p = os.path.join(d, "trace_%d.ndjson" % len(chunks))
            common.write_ndjson(p, trace)
            chunks.append(p)
            index.append(idx)
        trace, idx = [head], []

    for k, c in enumerate(cases):
        evs = by_case.get(k, [])
        if len(trace) + len(evs) > max_events:
            flush()
        first = len(trace) + 1
        for e in evs:
            e = dict(e)
            e["base"] = c["T"]
            if e["stage"] == "next":
                e["op"] = c["next"][e["k"] - 1]
            common.check_ints(e)
            trace.append(e)
        idx.append((first, len(trace), k))
    flush()
    return chunks, index
