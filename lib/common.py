"""Shared machinery of bin/check: paths, harness build, harness runs, TLC runs, evidence, findings."""
import hashlib
import json
import os
import re
import subprocess
import sys
import time

VERIF = os.path.dirname(os.path.dirname(os.path.abspath(__file__)))
REPO = os.environ.get("VERIF_REPO", "/repo")
WORK = os.path.join(VERIF, "work")
SPEC = os.path.join(VERIF, "spec")
HARNESS = os.path.join(VERIF, "harness")
EVIDENCE = os.path.join(VERIF, "evidence")
REPLAYS = os.path.join(WORK, "replays")
NCPU = os.cpu_count() or 4

INT_MAX = 2 ** 31 - 1


class ToolError(Exception):
    """Something in the machinery failed (not a property violation): exit code 2."""


def log(*a):
    print(*a, file=sys.stderr, flush=True)


def ensure_dirs():
    for d in (WORK, EVIDENCE, REPLAYS, os.path.join(WORK, "tlc"), os.path.join(WORK, "cache")):
        os.makedirs(d, exist_ok=True)


# --------------------------------------------------------------------------- repo hash / cache
_repo_hash = []


def repo_hash():
    """Content hash of the implementation's sources (cache key for recorded corpora); taken once per
    process, so that a run keeps one cache directory even if files are edited while it runs."""
    if not _repo_hash:
        _repo_hash.append(_compute_repo_hash())
    return _repo_hash[0]


def _compute_repo_hash():
    h = hashlib.sha256()
    for root, dirs, files in os.walk(REPO):
        dirs[:] = sorted(d for d in dirs if d not in ("target", ".git", "output"))
        for f in sorted(files):
            if f.endswith((".rs", ".toml", ".lock")):
                p = os.path.join(root, f)
                h.update(p.encode())
                with open(p, "rb") as fh:
                    h.update(fh.read())
    for root, dirs, files in os.walk(os.path.join(HARNESS, "src")):
        for f in sorted(files):
            with open(os.path.join(root, f), "rb") as fh:
                h.update(fh.read())
    # the generators / drivers shape the corpora as well
    libdir = os.path.join(VERIF, "lib")
    for f in sorted(os.listdir(libdir)):
        if f.endswith(".py"):
            with open(os.path.join(libdir, f), "rb") as fh:
                h.update(fh.read())
    return h.hexdigest()[:16]


def prune_cache(keep=5):
    """Keep only the most recent corpus caches (one directory per content hash)."""
    root = os.path.join(WORK, "cache")
    if not os.path.isdir(root):
        return
    ds = [os.path.join(root, d) for d in os.listdir(root) if not d.startswith("mc_")]
    ds.sort(key=lambda p: os.path.getmtime(p), reverse=True)
    import shutil
    for p in ds[keep:]:
        if not _in_use(p):
            shutil.rmtree(p, ignore_errors=True)


def _in_use(p):
    """A cache directory is in use while a process that registered itself in it is alive."""
    for f in os.listdir(p):
        if f.startswith(".pid_"):
            if os.path.exists("/proc/%s" % f[5:]):
                return True
            try:
                os.remove(os.path.join(p, f))
            except OSError:
                pass
    return False


_pruned = [False]


def cache_dir(*parts):
    if not _pruned[0]:
        _pruned[0] = True
        prune_cache()
    top = os.path.join(WORK, "cache", repo_hash())
    d = os.path.join(top, *[str(p) for p in parts])
    os.makedirs(d, exist_ok=True)
    mark = os.path.join(top, ".pid_%d" % os.getpid())
    if not os.path.exists(mark):
        open(mark, "w").close()
    return d


# --------------------------------------------------------------------------- harness
_built = set()


def build_harness(profile="release"):
    """(Re)build the harness against /repo's current working tree (cargo is incremental)."""
    if profile in _built:
        return harness_bin(profile)
    lock = os.path.join(HARNESS, "Cargo.lock")
    if not os.path.exists(lock):
        import shutil
        shutil.copy(os.path.join(REPO, "Cargo.lock"), lock)
    cmd = ["cargo", "build", "--offline", "--quiet"]
    cmd += ["--release"] if profile == "release" else ["--profile", profile]
    t0 = time.time()
    env = dict(os.environ, CARGO_NET_OFFLINE="true")
    r = subprocess.run(cmd, cwd=HARNESS, env=env, stdout=subprocess.PIPE, stderr=subprocess.STDOUT, text=True)
    if r.returncode != 0:
        raise ToolError("harness build failed (%s):\n%s" % (profile, r.stdout[-4000:]))
    log("[build] harness profile=%s %.1fs" % (profile, time.time() - t0))
    _built.add(profile)
    return harness_bin(profile)


def harness_bin(profile="release"):
    return os.path.join(WORK, "target", profile, "rsv")


def run_harness(cmd, args, profile="release", timeout=600, threads=2, env_extra=None):
    """Run one harness command to completion. Returns (returncode or None on timeout)."""
    exe = build_harness(profile)
    env = dict(os.environ, RAYON_NUM_THREADS=str(threads), RUST_BACKTRACE="0")
    if env_extra:
        env.update(env_extra)
    try:
        r = subprocess.run([exe, cmd] + args, stdout=subprocess.DEVNULL, stderr=subprocess.PIPE,
                           timeout=timeout, env=env)
        return r.returncode, r.stderr.decode(errors="replace")[-2000:]
    except subprocess.TimeoutExpired:
        return None, "timeout"


def write_ndjson(path, items):
    with open(path, "w") as f:
        for it in items:
            f.write(json.dumps(it, separators=(",", ":")))
            f.write("\n")


def read_ndjson(path):
    out = []
    if not os.path.exists(path):
        return out
    with open(path) as f:
        for line in f:
            line = line.strip()
            if line:
                try:
                    out.append(json.loads(line))
                except json.JSONDecodeError:
                    pass  # a line cut by a killed process
    return out


def check_ints(obj, path="$"):
    """TLC integers are 32-bit: refuse (tool error) anything larger instead of mis-evaluating."""
    if isinstance(obj, bool):
        return
    if isinstance(obj, int):
        if abs(obj) > INT_MAX:
            raise ToolError("integer out of TLC range at %s: %d" % (path, obj))
    elif isinstance(obj, float):
        raise ToolError("float in trace at %s" % path)
    elif obj is None:
        raise ToolError("null in trace at %s" % path)
    elif isinstance(obj, dict):
        for k, v in obj.items():
            check_ints(v, path + "." + k)
    elif isinstance(obj, list):
        for i, v in enumerate(obj):
            check_ints(v, "%s[%d]" % (path, i))


# --------------------------------------------------------------------------- TLC
class TlcResult:
    def __init__(self):
        self.violations = []   # list of dict(kind, name, l)  (l = trace line of the offending state)
        self.generated = 0
        self.distinct = 0
        self.errors = []       # tool-level errors
        self.output = ""
        self.wall = 0.0
        self.prints = []       # PrintT lines


_tlc_counter = [0]


def run_tlc(module, invariants=(), properties=(), trace=None, constants=None, workers=None,
            timeout=900, spec=None, init="Init", nxt="Next", postconditions=(), constraint=None,
            view=None, cont=True, extra_env=None, deadlock=False, simulate=None, xmx="6g",
            symmetry=None, action_constraint=None):
    """Run TLC on spec/<module>.tla with a generated config. Returns TlcResult."""
    ensure_dirs()
    _tlc_counter[0] += 1
    tag = "%s_%d_%d" % (module, os.getpid(), _tlc_counter[0])
    cfg = os.path.join(WORK, "tlc", tag + ".cfg")
    meta = os.path.join(WORK, "tlc", tag + ".meta")
    with open(cfg, "w") as f:
        if spec:
            f.write("SPECIFICATION %s\n" % spec)
        else:
            f.write("INIT %s\nNEXT %s\n" % (init, nxt))
        for inv in invariants:
            f.write("INVARIANT %s\n" % inv)
        for p in properties:
            f.write("PROPERTY %s\n" % p)
        for p in postconditions:
            f.write("POSTCONDITION %s\n" % p)
        if constraint:
            f.write("CONSTRAINT %s\n" % constraint)
        if action_constraint:
            f.write("ACTION_CONSTRAINT %s\n" % action_constraint)
        if view:
            f.write("VIEW %s\n" % view)
        if symmetry:
            f.write("SYMMETRY %s\n" % symmetry)
        if constants:
            f.write("CONSTANTS\n")
            for k, v in constants.items():
                f.write("  %s = %s\n" % (k, v))
        f.write("CHECK_DEADLOCK %s\n" % ("TRUE" if deadlock else "FALSE"))
    cmd = ["java", "-XX:+UseParallelGC", "-Xss1g", "-Xmx" + xmx,
           "-cp", "/opt/veriftools/tla/tla2tools.jar:/opt/veriftools/tla/CommunityModules-deps.jar",
           "tlc2.TLC", "-workers", str(workers or "auto"), "-metadir", meta, "-cleanup",
           "-noGenerateSpecTE", "-config", cfg]
    if cont:
        cmd.append("-continue")
    if simulate:
        cmd += ["-simulate", simulate]
    cmd.append(os.path.join(SPEC, module + ".tla"))
    env = dict(os.environ)
    env.pop("JAVA_TOOL_OPTIONS", None)
    if trace:
        env["TRACE"] = trace
    if extra_env:
        env.update(extra_env)
    t0 = time.time()
    res = TlcResult()
    try:
        r = subprocess.run(cmd, cwd=SPEC, env=env, stdout=subprocess.PIPE, stderr=subprocess.STDOUT,
                           text=True, timeout=timeout)
        out = r.stdout
    except subprocess.TimeoutExpired as e:
        out = (e.stdout or b"").decode(errors="replace") if isinstance(e.stdout, bytes) else (e.stdout or "")
        res.errors.append("TLC timeout after %ds" % timeout)
    res.wall = time.time() - t0
    res.output = out
    parse_tlc_output(out, res)
    try:
        import shutil
        shutil.rmtree(meta, ignore_errors=True)
        os.remove(cfg)
    except OSError:
        pass
    return res


_re_inv = re.compile(r"Error: Invariant (\S+) is violated")
_re_act = re.compile(r"Error: Action property (\S+) is violated")
_re_states = re.compile(r"(\d+) states generated, (\d+) distinct states found")
_re_l = re.compile(r"^/?\\?\s*l = (\d+)\s*$")


def parse_tlc_output(out, res):
    lines = out.splitlines()
    cur = None
    for i, line in enumerate(lines):
        m = _re_inv.search(line)
        if m:
            cur = {"kind": "invariant", "name": m.group(1), "l": None}
            res.violations.append(cur)
            continue
        m = _re_act.search(line)
        if m:
            cur = {"kind": "action", "name": m.group(1), "l": None}
            res.violations.append(cur)
            continue
        if "is violated" in line and line.startswith("Error:") and "Temporal" in line:
            cur = {"kind": "temporal", "name": line.strip(), "l": None}
            res.violations.append(cur)
            continue
        if "Postcondition" in line and "violated" in line:
            res.errors.append(line.strip())
            continue
        if cur is not None:
            m2 = re.match(r"^(?:/\\ )?l = (\d+)", line.strip())
            if m2:
                cur["l"] = int(m2.group(1))  # last printed state of the error trace wins
        m = _re_states.search(line)
        if m:
            res.generated = int(m.group(1))
            res.distinct = int(m.group(2))
        if line.startswith("Error:") and not ("is violated" in line):
            if "The behavior up to this point is" in line:
                continue
            res.errors.append(line.strip() + " " + " | ".join(lines[i + 1:i + 6]))
        if "TLC threw an unexpected exception" in line or "java.lang." in line and "Exception" in line:
            res.errors.append(line.strip())
        if line.startswith("<<\"") or line.startswith("\"CASE") or line.startswith("<<\"CASE"):
            res.prints.append(line)
    if res.generated == 0 and not res.violations and "Model checking completed" not in out \
            and "Finished in" not in out and not res.errors:
        res.errors.append("TLC did not complete: " + out[-1500:])


# --------------------------------------------------------------------------- findings / evidence
def load_known_findings():
    path = os.path.join(VERIF, "known_findings.jsonl")
    known, fixed = [], []
    if os.path.exists(path):
        with open(path) as f:
            for line in f:
                line = line.strip()
                if not line or line.startswith("#"):
                    continue
                if line.startswith("fixed:"):
                    fixed.append(line)
                    continue
                known.append(json.loads(line))
    return known, fixed


def write_replay(prop, payload):
    ensure_dirs()
    blob = json.dumps(payload, sort_keys=True, separators=(",", ":"))
    h = hashlib.sha256(blob.encode()).hexdigest()[:12]
    path = os.path.join(REPLAYS, "%s-%s.json" % (prop, h))
    with open(path, "w") as f:
        json.dump(payload, f, indent=1)
    return path


def write_evidence(prop, tier, seed, coverage, wall, violations, assumptions):
    ensure_dirs()
    ev = {
        "property_id": prop,
        "tier": tier,
        "seed": seed,
        "level": "model_checking",
        "coverage": coverage,
        "assumptions": assumptions,
        "wall_s": round(wall, 2),
        "violations": violations,
    }
    with open(os.path.join(EVIDENCE, prop + ".json"), "w") as f:
        json.dump(ev, f, indent=1)
    return ev
