"""Anti-vacuity self tests: corrupt recorded traces field by field and require TLC to reject them."""


def pipe(prop, tier, seed):
    print("selftest for %s not implemented yet" % prop)
    return 2


def net(prop, tier, seed):
    print("selftest for %s not implemented yet" % prop)
    return 2
