"""Anti-vacuity self tests (`bin/check Cxx --selftest`): take a freshly recorded, accepted trace, corrupt
one recorded field at a time and require TLC to reject exactly that event with the expected formula.
Demonstrates that the specification is bound to what is recorded (a trace spec that accepted these
would be vacuous)."""
import copy
import json
import os

import common


def _first(trace, pred):
    for i, e in enumerate(trace):
        if pred(e):
            return i
    return None


def run_corruptions(module, trace, cases):
    """cases: list of (name, mutate(trace) -> line index or None, [expected formulas])."""
    d = os.path.join(common.WORK, "selftest_%d" % os.getpid())
    os.makedirs(d, exist_ok=True)
    ok = True
    ran = 0
    for name, mutate, expected in cases:
        t = copy.deepcopy(trace)
        idx = mutate(t)
        if idx is None:
            print("SELFTEST skip %-28s (no suitable event in the sample trace)" % name)
            continue
        ran += 1
        p = os.path.join(d, "t.ndjson")
        common.write_ndjson(p, t)
        res = common.run_tlc(module, invariants=expected, trace=p, workers=2, timeout=600)
        os.remove(p)
        hit = [v for v in res.violations if v["l"] == idx + 1 and v["name"] in expected]
        if res.errors and not hit:
            print("SELFTEST ERROR %-27s TLC error: %s" % (name, res.errors[0][:200]))
            ok = False
        elif hit:
            print("SELFTEST ok   %-28s rejected by %s at event %d" % (name, hit[0]["name"], idx + 1))
        else:
            print("SELFTEST FAIL %-28s corrupted event %d was accepted (violations: %s)" % (
                name, idx + 1, [(v["name"], v["l"]) for v in res.violations][:4]))
            ok = False
    try:
        os.rmdir(d)
    except OSError:
        pass
    if ran == 0:
        print("SELFTEST: no corruption applicable")
        return 2
    return 0 if ok else 1


# --------------------------------------------------------------------------- pipeline
def _out(t):
    return _first(t, lambda e: e["ev"] == "output" and e["O"]["fleet"] and any(f["vehicles"] for f in e["O"]["fleet"]))


def pipe(prop, tier, seed):
    import pipeline
    info = pipeline.corpus(tier, seed, "release")
    trace = common.read_ndjson(info["chunks"][0])

    def veh(e):
        for f in e["O"]["fleet"]:
            if f["vehicles"]:
                return f["vehicles"][0]

    def m_unknown_depot(t):
        i = _out(t)
        veh(t[i])["sd"] = "NO_SUCH_DEPOT"
        return i

    def m_time_shift(t):
        # a vehicle with two segments: pretend it also serves a segment of another vehicle at the same time
        for i, e in enumerate(t):
            if e["ev"] != "output":
                continue
            vs = [v for f in e["O"]["fleet"] for v in f["vehicles"]]
            for a in vs:
                for b in vs:
                    if a is not b and a["segs"] and b["segs"]:
                        sa, sb = a["segs"][0], b["segs"][0]
                        if sa["dep"] < sb["arr"] and sb["dep"] < sa["arr"] and sa["id"] != sb["id"]:
                            a["segs"].append(dict(sb))
                            return i
        return None

    def m_form_extra(t):
        i = _out(t)
        s = t[i]["O"]["segs"][0]
        s["form"] = s["form"] + ["veh_97", "veh_98", "veh_99"] * 40
        return i

    def m_form_drop(t):
        i = _first(t, lambda e: e["ev"] == "output" and any(s["form"] for s in e["O"]["segs"]))
        s = [s for s in t[i]["O"]["segs"] if s["form"]][0]
        s["form"] = s["form"][1:]
        return i

    def m_cost(t):
        i = _out(t)
        t[i]["O"]["obj"]["costs"] += 1
        return i

    def m_viol(t):
        i = _out(t)
        t[i]["O"]["obj"]["viol"] += 1
        return i

    def m_unserved(t):
        i = _out(t)
        t[i]["O"]["obj"]["unserved"] += 1
        return i

    def m_enddepot(t):
        for i, e in enumerate(t):
            if e["ev"] != "output":
                continue
            depots = {d["id"] for d in t[e["li"] - 1]["I"]["depots"]}
            for f in e["O"]["fleet"]:
                for v in f["vehicles"]:
                    other = [d for d in depots if d != v["ed"]]
                    if other:
                        v["ed"] = sorted(other)[0]
                        return i
        return None

    def m_cycle_drop(t):
        i = _first(t, lambda e: e["ev"] == "output" and any(c for f in e["O"]["fleet"] for c in f["cycles"]))
        for f in t[i]["O"]["fleet"]:
            for c in f["cycles"]:
                if c:
                    c.pop()
                    return i

    def m_status(t):
        i = _first(t, lambda e: e["ev"] == "end")
        t[i]["status"] = "panic"
        return i

    def m_stage_cost(t):
        i = _first(t, lambda e: e["ev"] == "stage" and e["S"]["veh"])
        t[i]["S"]["costs"] += 1
        return i

    def m_final_cycles(t):
        for i, e in enumerate(t):
            if e["ev"] == "summary" and e["final"]:
                F = t[e["final"] - 1]["S"]
                for tr in F["tr"]:
                    for c in tr["cyc"]:
                        if len(c["v"]) >= 2:
                            c["v"] = c["v"][1:] + c["v"][:1]
                            return i
        return None

    def m_ls_worse(t):
        i = _first(t, lambda e: e["ev"] == "stage" and e["label"] == "ls_step")
        if i is None:
            return None
        t[i]["S"] = copy.deepcopy(t[t[i]["pi"] - 1]["S"])   # "step" that does not improve
        return i

    cases = {
        "C01": [("unknown start depot", m_unknown_depot, ["P_C01"]), ("overlapping extra segment", m_time_shift, ["P_C01"])],
        "C02": [("120 extra vehicles in formation", m_form_extra, ["P_C02_formation", "P_C03_views"])],
        "C03": [("vehicle dropped from formation", m_form_drop, ["P_C03_views"])],
        "C04": [("costs + 1", m_cost, ["P_C04_costs"]), ("violation + 1", m_viol, ["P_C04_violation"])],
        "C05": [("end depot moved", m_enddepot, ["P_C05_aligned", "P_C05_balance"]),
                ("vehicle dropped from cycle", m_cycle_drop, ["P_C05_partition"])],
        "C06": [("status panic", m_status, ["P_C06"])],
        "C07": [("unserved + 1", m_unserved, ["P_C07_coverage"])],
        "C08": [("non-improving step", m_ls_worse, ["P_C08_descent"])],
        "C14": [("stage cost + 1", m_stage_cost, ["P_stage_caches_sched"])],
        "C16": [("final cycle rotated", m_final_cycles, ["P_C16_cycles", "P_C16_final", "P_C16_output"])],
    }
    return run_corruptions("TracePipe", trace, cases.get(prop, cases["C04"]))


# --------------------------------------------------------------------------- local-search candidates (C11)
def lscand(prop, tier, seed):
    import props
    info = props.REGISTRY["C11"].corpus(tier, seed)
    trace = common.read_ndjson(info["chunks"][0])

    def enum_with(pred):
        return _first(trace, lambda e: e["ev"] == "enum" and e["ok"] and pred(e))

    def m_drop(t):
        i = enum_with(lambda e: len(e["all"]) >= 3)
        if i is None:
            return None
        t[i]["all"].pop(1)
        return i

    def m_extra(t):
        i = enum_with(lambda e: len({d["p"] for d in e["all"] if d["k"] == "RN"}) >= 2)
        if i is None:
            return None
        rn = [d for d in t[i]["all"] if d["k"] == "RN"]
        x = dict(rn[0])
        other = [d for d in rn if d["p"] != x["p"]][0]
        x["a"] = x["b"] = other["a"]          # a node that the vehicle does not serve
        if x in t[i]["all"]:
            return None
        t[i]["all"].append(x)
        return i

    def m_other(t):
        cs = [k for k, e in enumerate(t) if e["ev"] == "cand"]
        for a in cs:
            for b in cs:
                if t[a]["bi"] == t[b]["bi"] and t[a]["sw"] != t[b]["sw"] and t[a]["S"]["veh"] != t[b]["S"]["veh"]:
                    t[a]["S"] = copy.deepcopy(t[b]["S"])
                    return a
        return None

    def m_cost(t):
        i = _first(t, lambda e: e["ev"] == "cand" and e["S"]["veh"])
        t[i]["S"]["veh"][0]["c"] += 1
        return i

    r1 = run_corruptions("TraceSwap", trace, [
        ("swap missing from neighbourhood", m_drop, ["P_C11_complete"]),
        ("swap that does not apply offered", m_extra, ["P_C11_sound"]),
        ("candidate of another swap", m_other, ["P_C11_swap"]),
    ])
    r2 = run_corruptions("TracePipe", trace, [("candidate tour cost + 1", m_cost, ["P_C11_caches"])])
    return max(r1, r2)


# --------------------------------------------------------------------------- network
def net(prop, tier, seed):
    import gen
    import props
    insts = [gen.gen_instance(seed, i) for i in range(12)]
    trace = props.net_trace(insts, common.cache_dir("selftest_net"))

    def ok_net(e):
        return e["ev"] == "net" and e["ok"]

    def m_reach(t):
        i = _first(t, lambda e: ok_net(e) and e["obs"]["reach"])
        t[i]["obs"]["reach"].pop()
        return i

    def m_time(t):
        i = _first(t, lambda e: ok_net(e) and any(n["k"] == "svc" for n in e["obs"]["nodes"]))
        n = [n for n in t[i]["obs"]["nodes"] if n["k"] == "svc"][0]
        n["t2"] += 60
        return i

    def m_pred(t):
        i = _first(t, lambda e: ok_net(e) and any(p["l"] for p in e["obs"]["pred"]))
        p = [p for p in t[i]["obs"]["pred"] if p["l"]][0]
        p["l"] = p["l"][1:]
        return i

    def m_cap(t):
        i = _first(t, lambda e: ok_net(e))
        for d in t[i]["obs"]["depots"]:
            if d["id"] == "OVERFLOW_DEPOT":
                d["cap"] = 0
        return i

    return run_corruptions("TraceNet", trace, [
        ("reach pair removed", m_reach, ["P_C17_reach"]),
        ("arrival + 60 s", m_time, ["P_C17_nodes"]),
        ("predecessor dropped", m_pred, ["P_C17_pred"]),
        ("overflow capacity 0", m_cap, ["P_C17_overflow"]),
    ])


# --------------------------------------------------------------------------- walks
def walk(prop, tier, seed):
    import walks
    info = walks.corpus(tier, seed)
    trace = common.read_ndjson(info["chunks"][0])

    def has_s(e):
        return e["ev"] == "op" and e["ok"] and e["S"]["veh"]

    def m_cost(t):
        i = _first(t, has_s)
        t[i]["S"]["veh"][0]["c"] += 1
        return i

    def m_form(t):
        i = _first(t, lambda e: has_s(e) and any(f["v"] for f in e["S"]["form"]))
        f = [f for f in t[i]["S"]["form"] if f["v"]][0]
        f["v"] = f["v"][1:]
        return i

    def m_tour(t):
        i = _first(t, lambda e: has_s(e) and e["op"] == "spawn_vehicle_for_path")
        v = t[i]["S"]["veh"][-1]
        others = [d for d in {x["n"][-1] for e in t if e.get("S") for x in e["S"]["veh"]} if d != v["n"][-1]]
        if not others:
            return None
        # another vehicle's tour silently changed by the call
        j = _first(t, lambda e: has_s(e) and len(e["S"]["veh"]) >= 2 and e["op"] in ("spawn_vehicle_for_path",))
        if j is None:
            return None
        t[j]["S"]["veh"][0]["n"] = t[j]["S"]["veh"][0]["n"][:-1] + [sorted(others)[0]]
        return j

    def m_digest(t):
        i = _first(t, lambda e: e["ev"] == "op")
        t[i]["ha"] = "0000000000000000"
        return i

    def m_fit(t):
        # a fit_reassign that moved something is replayed as one that moved nothing: allowed by no greedy run
        i = _first(t, lambda e: has_s(e) and e["op"] == "fit_reassign" and e["S"]["veh"] != t[e["pi"] - 1]["S"]["veh"]
                   and e["S"]["dum"] == t[e["pi"] - 1]["S"]["dum"])
        if i is None:
            return None
        t[i]["S"] = copy.deepcopy(t[t[i]["pi"] - 1]["S"])
        return i

    cases = {
        "C09": [("tour cost + 1", m_cost, ["P_C09_tour"])],
        "C10": [("vehicle dropped from formation", m_form, ["P_C10_formations"])],
        "C13": [("other vehicle's end depot changed", m_tour, ["P_C13_effect"]),
                ("input digest changed", m_digest, ["P_C13_input"]),
                ("fit_reassign result replaced by 'nothing fits'", m_fit, ["P_C13_fit_exact"])],
    }
    return run_corruptions("TraceSched", trace, cases[prop])


def tour(prop, tier, seed):
    import tours as tm
    from check import Outcome
    out = Outcome()
    cases = tm.run_gen("quick", out, bnd={"MaxActs": "2", "MaxMnt": "0", "Starts": "{0,1}", "Durs": "{1}"})[:40]
    by_name = tm.execute(cases)
    d = common.cache_dir("selftest_tour")
    chunks, index = tm.build_traces(cases, by_name, d)
    trace = common.read_ndjson(chunks[0])

    def m_insert(t):
        i = _first(t, lambda e: e.get("op") == "insert" and e["ok"] and len(e["res"]) >= 4)
        t[i]["res"] = t[i]["res"][:1] + t[i]["res"][2:]
        return i

    def m_remove(t):
        i = _first(t, lambda e: e.get("op") == "removable" and e["ok"])
        t[i]["ok"] = False
        return i

    def m_fig(t):
        i = _first(t, lambda e: e.get("op") == "insert" and e["ok"])
        t[i]["fig"]["dd"] += 1
        return i

    return run_corruptions("TraceTour", trace, [
        ("node dropped from insert result", m_insert, ["P_C12_insert"]),
        ("removable reported false", m_remove, ["P_C12_removable"]),
        ("dead-head distance + 1", m_fig, ["P_C09_tourfig"]),
    ])


def trans(prop, tier, seed):
    import transitions as tr
    from check import Outcome
    out = Outcome()
    I, veh, probe, cases = tr.run_model(out, 3, 3)
    by_case = tr.execute(I, veh, probe, cases)
    d = common.cache_dir("selftest_trans")
    chunks, index = tr.build_traces(I, veh, cases, by_case, d)
    trace = common.read_ndjson(chunks[0])

    def m_counter(t):
        i = _first(t, lambda e: e["ev"] == "tr" and e["ok"] and e["obs"]["c"])
        t[i]["obs"]["c"][0] += 1
        return i

    def m_succ(t):
        i = _first(t, lambda e: e["ev"] == "tr" and e["ok"] and len(e["obs"]["succ"]) >= 2 and
                   any(len(c) >= 2 for c in e["obs"]["cyc"]))
        for s in t[i]["obs"]["succ"]:
            s["s"] = s["v"]
        return i

    def m_probe(t):
        i = _first(t, lambda e: e["ev"] == "tr" and e["ok"] and len(e["obs"]["probe"]) >= 2)
        t[i]["obs"]["probe"] = t[i]["obs"]["probe"][1:]
        return i

    return run_corruptions("TraceTrans", trace, [
        ("cycle counter + 1", m_counter, ["P_C15_inv", "P_C15_model"]),
        ("successor = self", m_succ, ["P_C15_lookup"]),
        ("empty-cycle probe shortened", m_probe, ["P_C15_model", "P_C15_empty", "P_C15_inv"]),
    ])


def server(prop, tier, seed):
    print("SELFTEST for C18: corrupting a recorded exchange")
    trace = [
        {"ev": "http", "sched": 0, "r": "h1", "kind": "health", "status": 500, "closed": False, "timeout": False,
         "body": "Healthy", "li": 0, "json": False},
        {"ev": "http", "sched": 0, "r": "m1", "kind": "malformed", "status": 200, "closed": False, "timeout": False,
         "body": "", "li": 0, "json": False},
        {"ev": "alive", "sched": 0, "alive": False},
    ]
    d = common.cache_dir("selftest_srv")
    p = os.path.join(d, "t.ndjson")
    common.write_ndjson(p, trace)
    res = common.run_tlc("TraceServer", invariants=["P_C18_health", "P_C18_malformed", "P_C18_alive"], trace=p, workers=1)
    got = sorted((v["name"], v["l"]) for v in res.violations)
    want = [("P_C18_alive", 3), ("P_C18_health", 1), ("P_C18_malformed", 2)]
    print("SELFTEST", "ok" if got == want else "FAIL", got)
    return 0 if got == want else 1
