"""Abstract instance generator and renderer (abstract instance -> README input JSON).

The *abstract* instance is what the TLA+ specification sees (integers, strings, sequences; -1 for
absent options; depots resolved to the documented defaults).  The *rendered* JSON is what the
implementation sees.  Nothing in here evaluates a property.
"""
import datetime
import math
import random
import zlib

BASE = datetime.datetime(2024, 3, 4, 0, 0, 0)
LATEST = 10 ** 9
EARLIEST = -1


def iso(sec):
    return (BASE + datetime.timedelta(seconds=sec)).strftime("%Y-%m-%dT%H:%M:%S")


def parse_iso(s):
    """ISO string (as written by the implementation) -> seconds relative to BASE."""
    if s == "EARLIEST":
        return EARLIEST
    if s == "LATEST":
        return LATEST
    s = s.replace("Z", "")
    date, _, tm = s.partition("T")
    y, m, d = [int(x) for x in date.split("-")]
    parts = [int(x) for x in tm.split(":")]
    while len(parts) < 3:
        parts.append(0)
    dt = datetime.datetime(y, m, d) + datetime.timedelta(
        hours=parts[0], minutes=parts[1], seconds=parts[2])
    return int((dt - BASE).total_seconds())


PROFILES = [
    "plain", "ties", "limits_type", "limits_seg", "limits_both", "scarce_depots", "no_depots_key",
    "empty_depots", "multi_cycle", "forbid", "multi_type", "coupled", "hitchhike", "nonmetric",
    "two_days", "tiny", "tight", "bigshunt", "multi_cycle", "multi_cycle", "mc_overflow", "depot_contention", "seat_rush",
]


def gen_instance(seed, index, profile=None, max_trips=10, allow_weird=False):
    rng = random.Random((seed * 1000003 + index) & 0xFFFFFFFF)
    if profile is None:
        profile = PROFILES[index % len(PROFILES)]
    p = profile
    I = {"name": "i%d_%s" % (index, p), "profile": p}
    overflow_cycles = p == "mc_overflow"   # several rotation cycles of vehicles living at the overflow depot
    if overflow_cycles:
        p = "multi_cycle"
    # several types compete for a small depot that is nearest by distance but not by travel time (the flow
    # chooses by time, improve_depots by distance, so vehicles of different types move in together)
    contention = p == "depot_contention"
    if contention:
        p = "nonmetric"
    # simultaneous trips whose SEATED demand needs several coupled vehicles while all passengers would fit
    # into one, no formation limit, (almost) no real depot capacity: everything has to come from the overflow depot
    rush = p == "seat_rush"
    if rush:
        p = rng.choice(["empty_depots", "scarce_depots"])

    ntypes = 1
    if (p == "multi_type" or contention or rng.random() < 0.25) and not rush:
        ntypes = rng.choice([2, 3])
    nloc = rng.choice([2, 3, 3, 4])
    if contention:
        nloc = rng.choice([3, 4, 4])
    if p == "tiny":
        nloc = 2
        ntypes = 1
    locs = ["L%s" % chr(65 + i) for i in range(nloc)]
    I["locs"] = locs

    # ---- vehicle types
    types = []
    for t in range(ntypes):
        seats = rng.choice([20, 50, 80])
        cap = seats + rng.choice([0, 20, 70])
        lim = -1
        if p in ("limits_type", "limits_both") or (p not in ("limits_seg", "coupled") and rng.random() < 0.3):
            lim = rng.choice([1, 2, 2, 3])
        if rush:
            seats, lim = rng.choice([20, 30]), -1
            cap = 4 * seats + rng.choice([0, 10])
        types.append({"id": "T%d" % t, "cap": cap, "seats": seats, "limit": lim})
    I["types"] = types

    # ---- dead-head matrices
    grid = 900
    shunt_min = rng.choice([0, 60, 300])
    shunt_dh = rng.choice([0, 60])
    if p in ("ties", "tiny"):
        shunt_min = 0
        shunt_dh = rng.choice([0, 0, 60])
    if p == "tight":
        shunt_dh = rng.choice([60, 300, 300])
    if p == "bigshunt":
        # minimal shunting longer than a whole dead-head connection
        shunt_min = rng.choice([600, 900])
        shunt_dh = rng.choice([0, 60])
    if p == "nonmetric":
        dur = [[0 if i == j else rng.choice([300, 600, 900, 1800, 3600]) for j in range(nloc)] for i in range(nloc)]
        dist = [[0 if i == j else rng.choice([1000, 5000, 20000, 60000]) for j in range(nloc)] for i in range(nloc)]
    else:
        pos = sorted(rng.sample(range(0, 12), nloc))
        unit_t = rng.choice([300, 450, 900]) if p != "bigshunt" else rng.choice([60, 120])
        unit_d = rng.choice([1000, 5000, 8000])
        dur = [[abs(pos[i] - pos[j]) * unit_t for j in range(nloc)] for i in range(nloc)]
        dist = [[abs(pos[i] - pos[j]) * unit_d for j in range(nloc)] for i in range(nloc)]
    if nloc >= 2 and not contention and p not in ("tiny",) and rng.random() < 0.2:
        # a station and its yard: two locations with a dead-head of zero seconds (and a few metres)
        a, b = rng.sample(range(nloc), 2)
        dur[a][b] = dur[b][a] = 0
        dist[a][b] = dist[b][a] = rng.choice([0, 300])
    if contention:
        # location 0 hosts the small depot: close to everything in metres, slow to reach; location 1 hosts
        # the big depot: far away in metres, quick to reach
        for x in range(2, nloc):
            for (a, b) in ((0, x), (x, 0)):
                dist[a][b] = rng.choice([500, 1000, 2000])
                dur[a][b] = rng.choice([1800, 2700, 3600])
            for (a, b) in ((1, x), (x, 1)):
                dist[a][b] = rng.choice([20000, 40000, 60000])
                dur[a][b] = rng.choice([300, 600])
    I["dhDur"] = dur
    I["dhDist"] = dist
    I["shuntMin"] = shunt_min
    I["shuntDh"] = shunt_dh
    I["forbid"] = (p == "forbid") or rng.random() < 0.08
    I["forbidGiven"] = I["forbid"] or rng.random() < 0.5

    # ---- routes and departures -> trips (one per departure segment)
    ntrips_target = rng.randint(1, max_trips)
    if p == "multi_cycle":
        ntrips_target = rng.randint(min(6, max_trips), max_trips)
    if p == "tiny":
        ntrips_target = rng.randint(1, 3)
    horizon = 86400 if p != "two_days" else 2 * 86400
    routes = []
    nroutes = rng.randint(1, max(1, min(4, ntrips_target)))
    if contention:
        nroutes = max(nroutes, ntypes)
    for r in range(nroutes):
        ty = types[rng.randrange(ntypes)]["id"] if r >= ntypes else types[r % ntypes]["id"]
        nseg = rng.choice([1, 1, 1, 2, 2, 3])
        cur = rng.randrange(nloc)
        if contention:
            cur = rng.randrange(2, nloc)      # first trips start away from both depots
        segs = []
        for s in range(nseg):
            nxt = rng.choice([x for x in range(nloc) if x != cur] + ([cur] if rng.random() < 0.1 else []))
            d = rng.choice([1, 1, 2, 2, 3, 4]) * grid
            dd = max(abs(dist[cur][nxt]), 1000) + rng.choice([0, 1000, 5000])
            if allow_weird and rng.random() < 0.05:
                dd = 0
            lim = -1
            if (p in ("limits_seg", "limits_both") or rng.random() < 0.2) and not rush:
                lim = rng.choice([1, 1, 2, 3])
            segs.append({"id": "r%ds%d" % (r, s), "orig": locs[cur], "dest": locs[nxt], "dur": d,
                         "dist": dd, "limit": lim})
            cur = nxt
        routes.append({"id": "r%d" % r, "ty": ty, "segs": segs})
    if p == "multi_type" or contention:
        # make sure at least two types have routes
        for t in range(min(ntypes, len(routes))):
            routes[t]["ty"] = types[t]["id"]

    trips = []
    departures = []
    tcount = 0
    dcount = 0
    while tcount < ntrips_target and dcount < 12:
        r = routes[rng.randrange(len(routes))]
        tyrec = [t for t in types if t["id"] == r["ty"]][0]
        t0 = rng.randrange(4 * 3600 // grid, (horizon - 6 * 3600) // grid) * grid
        if p == "multi_cycle":
            # many trips at the same time -> many vehicles with short tours
            t0 = rng.randrange(8 * 3600 // grid, 10 * 3600 // grid) * grid
        if rush:
            t0 = 8 * 3600 + rng.choice([0, 0, grid])
        if p in ("ties", "tiny") and trips and rng.random() < 0.7:
            # back-to-back with an existing trip: start exactly when another one ends / starts
            other = rng.choice(trips)
            t0 = rng.choice([other["dep"] + other["dur"], other["dep"]])
        if p in ("tight", "bigshunt") and trips and rng.random() < 0.75:
            # a connection with (almost) no slack: depart exactly when a vehicle coming from another
            # trip can be there at the earliest (plus a slack smaller than the dead-head shunting)
            other = rng.choice(trips)
            o1 = r["segs"][0]["orig"]
            if other["dest"] == o1:
                need = shunt_min
            else:
                need = dur[locs.index(other["dest"])][locs.index(o1)] + 2 * shunt_dh
            slack = rng.choice([0, 0, 1, max(0, shunt_dh - 1), max(0, shunt_dh // 2)])
            t0 = other["dep"] + other["dur"] + need + slack
        dep = {"id": "d%d" % dcount, "route": r["id"], "segs": []}
        t = t0
        for k, sg in enumerate(r["segs"]):
            if k > 0:
                t = t + shunt_min + rng.choice([0, 0, grid])
            # demand
            want = rng.choice([1, 1, 1, 2, 2, 3])
            if p in ("coupled", "limits_type", "limits_seg", "limits_both", "hitchhike"):
                want = rng.choice([1, 2, 2, 3, 4])
            mode = rng.random()
            if rush:
                want = rng.choice([2, 3, 4])
                mode = 0.99
            if mode < 0.15:
                pax, seated = 0, 0
            elif mode < 0.6:
                pax = rng.randint((want - 1) * tyrec["cap"] + 1, want * tyrec["cap"])
                seated = rng.randint(0, min(pax, want * tyrec["seats"]))
            else:
                seated = rng.randint((want - 1) * tyrec["seats"] + 1, want * tyrec["seats"])
                pax = rng.randint(seated, max(seated, want * tyrec["cap"]))
                if rush:
                    pax = rng.randint(seated, max(seated, tyrec["cap"]))     # one vehicle would do for the passengers
            trips.append({"id": "t%d" % tcount, "ty": r["ty"], "route": r["id"], "seg": sg["id"],
                          "depId": dep["id"], "orig": sg["orig"], "dest": sg["dest"], "dep": t,
                          "dur": sg["dur"], "dist": sg["dist"], "pax": pax, "seated": seated,
                          "limit": sg["limit"]})
            dep["segs"].append({"id": "t%d" % tcount, "seg": sg["id"], "dep": t, "pax": pax, "seated": seated})
            t = t + sg["dur"]
            tcount += 1
        departures.append(dep)
        dcount += 1
    I["trips"] = trips
    I["_routes"] = routes
    I["_departures"] = departures

    # ---- maintenance
    has_slots = p == "multi_cycle" or rng.random() < 0.6
    if p == "tiny":
        has_slots = rng.random() < 0.5
    slots = []
    if has_slots:
        ns = rng.choice([1, 1, 2, 3]) if p != "multi_cycle" else rng.choice([2, 3])
        for s in range(ns):
            st = rng.randrange(2 * 3600 // grid, (horizon - 3 * 3600) // grid) * grid
            if p == "multi_cycle":
                st = rng.randrange(14 * 3600 // grid, 18 * 3600 // grid) * grid
            if p in ("ties", "tiny") and trips and rng.random() < 0.5:
                o = rng.choice(trips)
                st = o["dep"] + o["dur"]
            ln = rng.choice([1, 2, 4]) * grid
            tracks = rng.choice([1, 1, 2]) if p != "multi_cycle" else rng.choice([1, 2, 2])
            slots.append({"id": "m%d" % s, "loc": locs[rng.randrange(nloc)], "start": st, "end": st + ln,
                          "tracks": tracks})
    if slots and rng.random() < 0.3:
        # a second slot at the same place right after an existing one: gap 0, or positive but shorter than
        # the minimal shunting time (whether the two may share a vehicle is decided by the shunting rule)
        o = rng.choice(slots)
        gap = rng.choice([0, 0, max(0, shunt_min // 2), max(0, shunt_min - 1), shunt_min])
        st = o["end"] + gap
        slots.append({"id": "m%d" % len(slots), "loc": o["loc"], "start": st, "end": st + rng.choice([1, 2]) * grid,
                      "tracks": rng.choice([1, 2])})
    I["slots"] = slots
    I["hasSlots"] = has_slots
    total_dist = sum(t["dist"] for t in trips)
    I["maintGiven"] = has_slots and rng.random() < 0.85
    if I["maintGiven"]:
        I["maxDist"] = rng.choice([max(1000, total_dist // 4), max(1000, total_dist // 2), total_dist + 50000,
                                   3 * total_dist + 100000])
        if p == "multi_cycle":
            # several vehicles have to visit a slot -> several rotation cycles
            # (allowance for about two trips plus dead-heads; the fleet needs several visits)
            I["maxDist"] = int(rng.choice([1.6, 2.2, 3.0]) * max(t["dist"] for t in trips)) + rng.choice([10000, 30000])
    else:
        I["maxDist"] = 0

    # ---- depots
    if overflow_cycles:
        given = True
    elif p in ("no_depots_key", "multi_cycle"):
        given = False
    elif p == "empty_depots":
        given = True
    else:
        given = rng.random() < 0.6
    I["depotsGiven"] = given or contention
    depots = []
    if contention:
        given = True
        for d, li in enumerate([0, 1]):
            small = d == 0
            depots.append({"id": "D%d" % d, "loc": locs[li], "cap": 1 if small else 8,
                           "allowed": [{"ty": t["id"], "cap": rng.choice([-1, 1]) if small else -1} for t in types]})
    elif given and p != "empty_depots" and not (overflow_cycles and rng.random() < 0.5):
        nd = rng.choice([1, 2, 2, 3])
        for d in range(nd):
            cap = rng.choice([0, 1, 2, 3, 5, 8])
            if p == "scarce_depots" or overflow_cycles:
                cap = rng.choice([0, 1, 1, 2])
            allowed = []
            for t in types:
                if rng.random() < 0.8:
                    allowed.append({"ty": t["id"], "cap": rng.choice([-1, -1, 0, 1, 2, 4])})
            depots.append({"id": "D%d" % d, "loc": locs[rng.randrange(nloc)], "cap": cap, "allowed": allowed})
    elif not given:
        for l in locs:
            depots.append({"id": "depot_%s" % l, "loc": l, "cap": -1,
                           "allowed": [{"ty": t["id"], "cap": -1} for t in types]})
    for d in depots:
        d["sn"] = "s_" + d["id"]
        d["en"] = "e_" + d["id"]
    I["depots"] = depots

    # ---- costs
    c = {"staff": rng.choice([0, 1, 2, 5]), "svc": rng.choice([0, 1, 2, 3]), "mnt": rng.choice([0, 1, 2]),
         "dh": rng.choice([1, 2, 4, 9]), "idle": rng.choice([0, 1, 2])}
    if p == "hitchhike":
        c["dh"] = c["staff"] + c["svc"] + rng.choice([0, 1, 3])
    if rng.random() < 0.04:
        c = {"staff": 0, "svc": 0, "mnt": 0, "dh": 0, "idle": 0}     # nothing costs anything (valid: coefficients are Ints)
    I["costs"] = c
    I["mntCostGiven"] = rng.random() < 0.7
    if not I["mntCostGiven"]:
        c["mnt"] = 0
    return I


def spec_view(I):
    """The part of the abstract instance handed to TLC (no rendering-only fields)."""
    return {k: v for k, v in I.items() if not k.startswith("_") and k not in (
        "profile", "forbidGiven", "maintGiven", "mntCostGiven", "depotsGiven", "hasSlots")}


def render(I, rng=None):
    """Abstract instance -> input JSON in the README format."""
    if "_input" in I:
        return I["_input"]
    rng = rng or random.Random(zlib.crc32(I["name"].encode()))

    def opt(d, key, val, present):
        if present:
            d[key] = val
        elif rng.random() < 0.5:
            d[key] = None

    out = {}
    vts = []
    for t in I["types"]:
        d = {"id": t["id"], "capacity": t["cap"], "seats": t["seats"]}
        opt(d, "maximalFormationCount", t["limit"], t["limit"] != -1)
        vts.append(d)
    out["vehicleTypes"] = vts
    out["locations"] = [{"id": l} for l in I["locs"]]
    if I["depotsGiven"]:
        ds = []
        for d in I["depots"]:
            al = []
            for a in d["allowed"]:
                e = {"vehicleType": a["ty"]}
                opt(e, "capacity", a["cap"], a["cap"] != -1)
                al.append(e)
            ds.append({"id": d["id"], "location": d["loc"], "capacity": d["cap"], "allowedTypes": al})
        out["depots"] = ds
    routes = []
    for r in I["_routes"]:
        segs = []
        for k, s in enumerate(r["segs"]):
            e = {"id": s["id"], "order": k, "origin": s["orig"], "destination": s["dest"],
                 "distance": s["dist"], "duration": s["dur"]}
            opt(e, "maximalFormationCount", s["limit"], s["limit"] != -1)
            segs.append(e)
        routes.append({"id": r["id"], "vehicleType": r["ty"], "segments": segs})
    rng.shuffle(routes)
    out["routes"] = routes
    deps = []
    for d in I["_departures"]:
        deps.append({"id": d["id"], "route": d["route"], "segments": [
            {"id": s["id"], "routeSegment": s["seg"], "departure": iso(s["dep"]), "passengers": s["pax"],
             "seated": s["seated"]} for s in d["segs"]]})
    rng.shuffle(deps)
    out["departures"] = deps
    if I["hasSlots"]:
        out["maintenanceSlots"] = [{"id": s["id"], "location": s["loc"], "start": iso(s["start"]),
                                    "end": iso(s["end"]), "trackCount": s["tracks"]} for s in I["slots"]]
    # the matrices are indexed by `indices`, whose order need not be the order of `locations`
    perm = list(range(len(I["locs"])))
    rng.shuffle(perm)
    out["deadHeadTrips"] = {"indices": [I["locs"][i] for i in perm],
                            "durations": [[I["dhDur"][i][j] for j in perm] for i in perm],
                            "distances": [[I["dhDist"][i][j] for j in perm] for i in perm]}
    params = {}
    opt(params, "forbidDeadHeadTrips", I["forbid"], I["forbidGiven"])
    params["shunting"] = {"minimalDuration": I["shuntMin"], "deadHeadTripDuration": I["shuntDh"]}
    if I["maintGiven"]:
        params["maintenance"] = {"maximalDistance": I["maxDist"]}
    costs = {"staff": I["costs"]["staff"], "serviceTrip": I["costs"]["svc"],
             "deadHeadTrip": I["costs"]["dh"], "idle": I["costs"]["idle"]}
    opt(costs, "maintenance", I["costs"]["mnt"], I["mntCostGiven"])
    params["costs"] = costs
    out["parameters"] = params
    return out


def req_vehicles(I, trip):
    t = [x for x in I["types"] if x["id"] == trip["ty"]][0]
    pax = max(trip["pax"], 1)
    return max(math.ceil(pax / t["cap"]), math.ceil(trip["seated"] / t["seats"]))


def classify(I):
    """Generator-side coverage tags (which named regions an instance lies in)."""
    tags = set()
    tl = {t["id"]: t["limit"] for t in I["types"]}
    for tr in I["trips"]:
        r = req_vehicles(I, tr)
        a, b = tl[tr["ty"]], tr["limit"]
        kind = ("both" if a != -1 and b != -1 else "type" if a != -1 else "seg" if b != -1 else "none")
        lim = min([x for x in (a, b) if x != -1], default=-1)
        tags.add("limit_" + kind)
        if lim != -1 and r > lim:
            tags.add("binding_" + kind)
        if r >= 2:
            tags.add("coupled")
        if tr["pax"] == 0:
            tags.add("pax0")
    ends = {}
    for tr in I["trips"]:
        ends.setdefault(tr["dep"] + tr["dur"], []).append(tr)
    for tr in I["trips"]:
        if tr["dep"] in ends:
            tags.add("tie")
    if I["shuntMin"] == 0:
        tags.add("zero_shunt")
    if I["forbid"]:
        tags.add("forbid")
    if not I["depotsGiven"]:
        tags.add("default_depots")
    elif not I["depots"]:
        tags.add("empty_depots")
    if I["slots"]:
        tags.add("slots")
    if len(I["types"]) > 1:
        tags.add("multi_type")
    return tags


def complete_view(V, name=None):
    """Turn a spec-level instance (as emitted by TLC, e.g. Gen_Tour) into a renderable one:
    one route and one departure per trip."""
    I = dict(V)
    if name:
        I["name"] = name
    I["profile"] = "tlc"
    routes, deps = [], []
    for t in I["trips"]:
        routes.append({"id": t["route"], "ty": t["ty"], "segs": [
            {"id": t["seg"], "orig": t["orig"], "dest": t["dest"], "dur": t["dur"], "dist": t["dist"],
             "limit": t["limit"]}]})
        deps.append({"id": t["depId"], "route": t["route"], "segs": [
            {"id": t["id"], "seg": t["seg"], "dep": t["dep"], "pax": t["pax"], "seated": t["seated"]}]})
    I["_routes"] = routes
    I["_departures"] = deps
    I["depotsGiven"] = True
    I["hasSlots"] = bool(I["slots"])
    I["maintGiven"] = True
    I["forbidGiven"] = True
    I["mntCostGiven"] = True
    return I


def decoupled(I):
    """Input-domain predicate of C14: depot totals do not couple the vehicle types (one type, or for
    every given depot the per-type capacities are explicit and sum to at most the total)."""
    if len(I["types"]) == 1 or not I["depotsGiven"]:
        return True
    for d in I["depots"]:
        caps = [a["cap"] for a in d["allowed"]]
        if any(c == -1 for c in caps):
            if len(caps) > 1:
                return False
            continue
        if sum(min(c, d["cap"]) for c in caps) > d["cap"]:
            return False
    return True


def from_input(inp, name="input"):
    """README-format input JSON -> abstract instance (inverse of render; used for instances that
    are not generated here, e.g. the repository's own test instance)."""
    I = {"name": name, "profile": "given", "_input": inp}
    I["types"] = [{"id": t["id"], "cap": t["capacity"], "seats": t["seats"],
                   "limit": t.get("maximalFormationCount") if t.get("maximalFormationCount") is not None else -1}
                  for t in inp["vehicleTypes"]]
    I["locs"] = [l["id"] for l in inp["locations"]]
    idx = inp["deadHeadTrips"]["indices"]
    pos = {l: idx.index(l) for l in I["locs"]}
    I["dhDur"] = [[inp["deadHeadTrips"]["durations"][pos[a]][pos[b]] for b in I["locs"]] for a in I["locs"]]
    I["dhDist"] = [[inp["deadHeadTrips"]["distances"][pos[a]][pos[b]] for b in I["locs"]] for a in I["locs"]]
    par = inp["parameters"]
    I["shuntMin"] = par["shunting"]["minimalDuration"]
    I["shuntDh"] = par["shunting"]["deadHeadTripDuration"]
    I["forbid"] = bool(par.get("forbidDeadHeadTrips") or False)
    I["maxDist"] = (par.get("maintenance") or {}).get("maximalDistance", 0)
    c = par["costs"]
    I["costs"] = {"staff": c["staff"], "svc": c["serviceTrip"], "mnt": c.get("maintenance") or 0,
                  "dh": c["deadHeadTrip"], "idle": c["idle"]}
    routes = {r["id"]: r for r in inp["routes"]}
    trips = []
    for d in inp["departures"]:
        r = routes[d["route"]]
        segs = {s["id"]: s for s in r["segments"]}
        for s in d["segments"]:
            rs = segs[s["routeSegment"]]
            trips.append({"id": s["id"], "ty": r["vehicleType"], "route": r["id"], "seg": rs["id"], "depId": d["id"],
                          "orig": rs["origin"], "dest": rs["destination"], "dep": parse_iso(s["departure"]),
                          "dur": rs["duration"], "dist": rs["distance"], "pax": s["passengers"], "seated": s["seated"],
                          "limit": rs.get("maximalFormationCount") if rs.get("maximalFormationCount") is not None else -1})
    I["trips"] = trips
    I["slots"] = [{"id": m["id"], "loc": m["location"], "start": parse_iso(m["start"]), "end": parse_iso(m["end"]),
                   "tracks": m["trackCount"]} for m in (inp.get("maintenanceSlots") or [])]
    # times relative to the midnight before the first activity (keeps them small and non-negative)
    allt = [t["dep"] for t in trips] + [m["start"] for m in I["slots"]]
    off = (min(allt) // 86400) * 86400 if allt else 0
    for t in trips:
        t["dep"] -= off
    for m in I["slots"]:
        m["start"] -= off
        m["end"] -= off
    I["_offset"] = off
    I["depotsGiven"] = inp.get("depots") is not None
    depots = []
    if I["depotsGiven"]:
        for d in inp["depots"]:
            depots.append({"id": d["id"], "loc": d["location"], "cap": d["capacity"],
                           "allowed": [{"ty": a["vehicleType"], "cap": a.get("capacity") if a.get("capacity") is not None else -1}
                                       for a in d["allowedTypes"]]})
    else:
        for l in I["locs"]:
            depots.append({"id": "depot_%s" % l, "loc": l, "cap": -1,
                           "allowed": [{"ty": t["id"], "cap": -1} for t in I["types"]]})
    for d in depots:
        d["sn"] = "s_" + d["id"]
        d["en"] = "e_" + d["id"]
    I["depots"] = depots
    I["hasSlots"] = inp.get("maintenanceSlots") is not None
    return I
