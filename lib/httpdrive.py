"""C18 driver: replays TLC-emitted request schedules (MC_Server) against the real `server` binary with
real concurrency and records every exchange. No property logic: statuses / bodies are logged."""
import http.client
import json
import os
import socket
import subprocess
import threading
import time

import common
import gen
import pipeline

TARGET = os.path.join(common.WORK, "target_repo")


def build_server():
    env = dict(os.environ, CARGO_TARGET_DIR=TARGET, CARGO_NET_OFFLINE="true")
    r = subprocess.run(["cargo", "build", "--offline", "--release", "--quiet", "-p", "server"], cwd=common.REPO,
                       env=env, stdout=subprocess.PIPE, stderr=subprocess.STDOUT, text=True)
    if r.returncode != 0:
        raise common.ToolError("building the server binary failed:\n" + r.stdout[-3000:])
    return os.path.join(TARGET, "release", "server")


def free_port():
    s = socket.socket()
    s.bind(("127.0.0.1", 0))
    p = s.getsockname()[1]
    s.close()
    return p


class Server:
    def __init__(self, exe, threads=4):
        self.port = free_port()
        env = dict(os.environ, RAYON_NUM_THREADS=str(threads))
        self.p = subprocess.Popen([exe, str(self.port)], stdout=subprocess.DEVNULL, stderr=subprocess.DEVNULL, env=env)
        for _ in range(100):
            try:
                st, _ = self.get("/health", timeout=2)
                if st == 200:
                    return
            except Exception:
                time.sleep(0.1)
        raise common.ToolError("server did not come up")

    def alive(self):
        return self.p.poll() is None

    def get(self, path, timeout=60):
        c = http.client.HTTPConnection("127.0.0.1", self.port, timeout=timeout)
        c.request("GET", path)
        r = c.getresponse()
        return r.status, r.read()

    def post(self, body, timeout=120):
        c = http.client.HTTPConnection("127.0.0.1", self.port, timeout=timeout)
        c.request("POST", "/solve", body=body, headers={"Content-Type": "application/json"})
        r = c.getresponse()
        return r.status, r.read()

    def stop(self):
        if self.alive():
            self.p.kill()
        self.p.wait()


def rename_ids(I, tag):
    """Distinct segment / slot ids per request, so that a swapped response is detectable."""
    J = json.loads(json.dumps(I))
    J["name"] = I["name"] + "_" + tag
    for t in J["trips"]:
        t["id"] = t["id"] + "_" + tag
    for d in J["_departures"]:
        for s in d["segs"]:
            s["id"] = s["id"] + "_" + tag
    for s in J["slots"]:
        s["id"] = s["id"] + "_" + tag
    return J


def numeric_sibling(I, k):
    """The same instance (same ids, times, locations) with different numbers only: the demand is
    changed so that the required formation sizes differ. An answer computed for the sibling cannot
    pass for this request."""
    J = json.loads(json.dumps(I))
    caps = {t["id"]: t["cap"] for t in J["types"]}
    for i, t in enumerate(J["trips"]):
        c = caps[t["ty"]]
        t["pax"] = c * (1 + (i + k) % 3) - (1 if (i + k) % 2 else 0)
        t["seated"] = min(t["seated"], t["pax"])
    for d in J["_departures"]:
        for sg in d["segs"]:
            tr = [t for t in J["trips"] if t["id"] == sg["id"]][0]
            sg["pax"], sg["seated"] = tr["pax"], tr["seated"]
    return J


def invalid_body(I, variant):
    inp = gen.render(I)
    v = variant % 6
    if v == 0:
        del inp["routes"]                                  # required field missing
    elif v == 1:
        inp["departures"][0]["route"] = "no_such_route"    # dangling reference
    elif v == 2:
        inp["vehicleTypes"] = "not a list"                 # wrong type
    elif v == 3:
        # loads, but is far outside the documented domain: fails inside the solver stages
        inp["parameters"]["costs"]["staff"] = 10 ** 15
    elif v == 4:
        inp["parameters"]["costs"]["deadHeadTrip"] = 2 ** 62
    else:
        inp["deadHeadTrips"]["durations"] = [[0]]          # matrix does not match the locations
    return json.dumps(inp)


MALFORMED = ["{not json", "", "[1, 2,", "{\"vehicleTypes\": [}"]


def kind_of(r):
    return {"h": "health", "v": "valid", "m": "malformed", "x": "invalid"}[r[0]]


def run_schedule(server, sched, k, instances, results):
    """sched: list of ["send"|"finish", r]. instances: request id -> renamed instance (valid requests)."""
    threads, out = {}, {}

    def do(r):
        kind = kind_of(r)
        t0 = time.time()
        rec = {"r": r, "kind": kind, "status": 0, "closed": False, "timeout": False, "body": ""}
        try:
            if kind == "health":
                st, body = server.get("/health")
            elif kind == "valid":
                payload = json.dumps(gen.render(instances[r]))
                if (k + len(r)) % 3 == 0:
                    # a large request (insignificant whitespace after the document, 2.5 MB in total): valid
                    # instances are not limited in size
                    payload += " " * (2500000 - len(payload))
                    rec["large"] = True
                st, body = server.post(payload)
            elif kind == "malformed":
                st, body = server.post(MALFORMED[k % len(MALFORMED)])
            else:
                # (the invalid-body client takes part in every second schedule: k // 2 walks through all variants)
                rec["variant"] = (k // 2) % 6
                st, body = server.post(invalid_body(instances.get(r) or next(iter(instances.values())), k // 2))
            rec["status"] = st
            if kind == "valid" and st == 200:
                try:
                    rec["out"] = json.loads(body)
                except ValueError:
                    rec["body"] = body[:80].decode(errors="replace")
            else:
                rec["body"] = body[:80].decode(errors="replace")
        except (http.client.RemoteDisconnected, ConnectionResetError, BrokenPipeError, http.client.IncompleteRead):
            rec["closed"] = True
        except socket.timeout:
            rec["timeout"] = True
        except Exception as e:  # noqa
            rec["closed"] = True
            rec["body"] = repr(e)[:80]
        rec["ms"] = int((time.time() - t0) * 1000)
        out[r] = rec

    for step in sched:
        what, r = step[0], step[1]
        if what == "send":
            t = threading.Thread(target=do, args=(r,))
            threads[r] = t
            t.start()
        else:
            threads[r].join(timeout=180)
            if threads[r].is_alive():
                out[r] = {"r": r, "kind": kind_of(r), "status": 0, "closed": False, "timeout": True, "body": ""}
    for r, t in threads.items():
        t.join(timeout=180)
    # after every fault sequence the server must still answer
    probe = {"r": "hf", "kind": "health", "status": 0, "closed": False, "timeout": False, "body": ""}
    try:
        st, body = server.get("/health")
        probe["status"] = st
        probe["body"] = body[:80].decode(errors="replace")
    except Exception:
        probe["closed"] = True
    results.append((k, sched, out, probe, server.alive()))


def build_trace(results, inst_of):
    """inst_of(k, r) -> renamed instance of a valid request."""
    trace = []
    for k, sched, out, probe, alive in results:
        order = [s[1] for s in sched if s[0] == "send"]
        for r in order:
            rec = out.get(r)
            if rec is None:
                continue
            ev = {"ev": "http", "sched": k, "r": r, "kind": rec["kind"], "status": rec["status"],
                  "closed": rec["closed"], "timeout": rec["timeout"], "body": rec.get("body", ""), "li": 0,
                  "json": False}
            if rec["kind"] == "valid":
                I = inst_of(k, r)
                trace.append({"ev": "load", "name": I["name"], "I": gen.spec_view(I)})
                ev["li"] = len(trace)
                if "out" in rec:
                    try:
                        ev["O"] = pipeline.project_output(rec["out"])
                        ev["json"] = True
                    except (KeyError, TypeError, ValueError):
                        ev["body"] = "unprojectable answer"
            trace.append(ev)
        trace.append({"ev": "http", "sched": k, "r": "hf", "kind": "health", "status": probe["status"],
                      "closed": probe["closed"], "timeout": probe["timeout"], "body": probe["body"], "li": 0,
                      "json": False})
        trace.append({"ev": "alive", "sched": k, "alive": bool(alive)})
    for t in trace:
        common.check_ints(t)
    return trace
