"""bin/check <property> [--tier quick|thorough] [--replay PATH] [--selftest]

Exit codes: 0 = property held on everything explored (known findings are printed as
KNOWN-FINDING lines), 1 = violation (VIOLATION property=<id> replay=<path> lines), 2 = tool error.
"""
import argparse
import json
import os
import sys
import time
import traceback

sys.path.insert(0, os.path.dirname(os.path.abspath(__file__)))

import common  # noqa: E402
from common import ToolError, log  # noqa: E402


class Finding:
    """One violation observed by TLC, attributed to a case."""

    def __init__(self, prop, formula, case, signature, detail, replay_payload):
        self.prop = prop
        self.formula = formula
        self.case = case
        self.signature = signature
        self.detail = detail
        self.replay_payload = replay_payload


class Outcome:
    def __init__(self):
        self.findings = []
        self.coverage = {}
        self.assumptions = []
        self.states = 0
        self.transitions = 0
        self.traces = 0
        self.samples = []
        self.tlc_runs = []

    def add_tlc(self, label, res):
        self.states += res.distinct
        self.transitions += res.generated
        self.tlc_runs.append({"run": label, "distinct": res.distinct, "generated": res.generated,
                              "wall_s": round(res.wall, 2)})
        if res.errors:
            raise ToolError("TLC error in %s: %s" % (label, res.errors[0][:1500]))


def main():
    ap = argparse.ArgumentParser()
    ap.add_argument("prop")
    ap.add_argument("--tier", default=os.environ.get("VERIF_TIER", "quick"), choices=["quick", "thorough"])
    ap.add_argument("--replay")
    ap.add_argument("--selftest", action="store_true")
    args = ap.parse_args()
    seed = int(os.environ.get("VERIF_SEED", "1"))
    prop = args.prop.upper()
    import props
    if prop not in props.REGISTRY:
        print("unknown property %s" % prop)
        return 2
    common.ensure_dirs()
    t0 = time.time()
    try:
        entry = props.REGISTRY[prop]
        if args.replay:
            out = entry.replay(prop, args.replay)
        elif args.selftest:
            return entry.selftest(prop, args.tier, seed)
        else:
            out = entry.run(prop, args.tier, seed)
    except ToolError as e:
        print("TOOL-ERROR property=%s %s" % (prop, str(e)[:3000]))
        return 2
    except Exception:
        print("TOOL-ERROR property=%s unexpected exception" % prop)
        traceback.print_exc()
        return 2
    wall = time.time() - t0
    known, _fixed = common.load_known_findings()
    # A listed finding identifies the failing input / call / history: the formula-level signature and, where
    # given, the cases (instance / walk / history names; prefix match) and a text that the offending event must
    # contain. Anything else that violates the same formula is a new violation.
    def match_known(f):
        for k in known:
            if k["property"] != f.prop or k["signature"] != f.signature:
                continue
            if k.get("cases") and not any(f.case.startswith(c) for c in k["cases"]):
                continue
            if k.get("detail_contains") and k["detail_contains"] not in f.detail:
                continue
            return k
        return None
    new, listed = [], {}
    # formulas of the specification that describe behaviour beyond what the property states (exact
    # heuristics, neighbourhood shape): a mismatch is reported, but it is not a violation of the property
    deviations = [f for f in out.findings if f.formula in props.CONFORMANCE_ONLY]
    out.findings = [f for f in out.findings if f.formula not in props.CONFORMANCE_ONLY]
    dev_seen = {}
    for f in deviations:
        dev_seen.setdefault(f.formula, []).append(f)
    for formula, fs in dev_seen.items():
        print("SPEC-DEVIATION property=%s formula=%s occurrences=%d e.g. case=%s %s (the implementation differs from the "
              "specification in behaviour the property does not constrain; not a violation)" % (
                  prop, formula, len(fs), fs[0].case, fs[0].detail[:160]))
    for f in out.findings:
        k = match_known(f)
        if k is not None:
            listed.setdefault(f.signature, []).append(f)
        else:
            new.append(f)
    for sig, fs in listed.items():
        print("KNOWN-FINDING: property=%s %s (%d occurrence(s), e.g. %s %s)" % (
            prop, sig, len(fs), fs[0].case, fs[0].formula))
    seen = set()
    nprinted = 0
    for f in new:
        key = (f.case, f.formula)
        if key in seen:
            continue
        seen.add(key)
        if nprinted < 12:
            path = common.write_replay(prop, f.replay_payload)
            print("VIOLATION property=%s replay=%s formula=%s case=%s signature=%s %s" % (
                prop, path, f.formula, f.case, f.signature, f.detail[:300]))
            nprinted += 1
    if len(seen) > nprinted:
        print("... %d further violating (case, formula) pairs not listed" % (len(seen) - nprinted))
    if not args.replay:
        cov = dict(out.coverage)
        cov.update({
            "states": out.states,
            "transitions": out.transitions,
            "traces_validated_against_impl": out.traces,
            "samples": out.samples[:6] or ["(none)"],
            "tlc_runs": out.tlc_runs,
            "known_findings_hit": sorted(listed.keys()),
            "spec_deviations_beyond_property": {k: len(v) for k, v in dev_seen.items()},
        })
        common.write_evidence(prop, args.tier, seed, cov, wall, len(seen), out.assumptions)
    log("[check] %s tier=%s wall=%.1fs states=%d traces=%d new_violations=%d known=%d" % (
        prop, args.tier, wall, out.states, out.traces, len(seen), len(listed)))
    return 1 if new else 0


if __name__ == "__main__":
    sys.exit(main())
