"""Specification -> implementation for the schedule state machine: MC_Schedule (Det mode) emits every
explored abstract state with a history of fully determined calls; rsv sched --mode replay executes the
histories on the real Schedule; TraceSched requires the observed abstract state to equal the model state."""
import json
import os

import common
import gen
import mcinst
import walks


def run_model(out, variant, ntrips, bounds, timeout=3000):
    I = mcinst.tiny(variant, ntrips)
    d = os.path.join(common.WORK, "mcsr_%d" % os.getpid())
    os.makedirs(d, exist_ok=True)
    ip = os.path.join(d, "inst.json")
    with open(ip, "w") as f:
        json.dump(gen.spec_view(I), f)
    res = common.run_tlc("MC_Schedule", invariants=["AbsInv", "OutputFromInv", "OutputWhenAligned", "EmitCase"],
                         view="view", constants={"MaxReal": bounds[0], "MaxDummy": bounds[1], "MaxId": bounds[2],
                                                 "Det": "TRUE"},
                         extra_env={"INSTANCE": ip}, workers=max(4, common.NCPU - 2), timeout=timeout, cont=False,
                         xmx="12g")
    out.add_tlc("MC_Schedule(Det,v%d,t%d,%s)" % (variant, ntrips, "/".join(bounds)), res)
    if res.violations:
        raise common.ToolError("MC_Schedule (Det) violates its own invariant: %s" % res.violations[0])
    cases = []
    for line in res.output.splitlines():
        if line.startswith('<<"CASE", '):
            cases.append(json.loads(json.loads(line[len('<<"CASE", '):-2])))
    os.remove(ip)
    os.rmdir(d)
    return I, cases


def execute(I, cases, shards=None):
    shards = shards or max(1, min(common.NCPU - 2, (len(cases) + 299) // 300))
    workdir = os.path.join(common.WORK, "srx_%d" % os.getpid())
    os.makedirs(workdir, exist_ok=True)
    common.build_harness("release")
    from concurrent.futures import ThreadPoolExecutor
    head = {"name": I["name"], "input": gen.render(I)}
    numbered = [{"case": k, "hist": c["hist"]} for k, c in enumerate(cases)]
    parts = [numbered[i::shards] for i in range(shards)]

    def one(k):
        inp = os.path.join(workdir, "in_%d.ndjson" % k)
        outp = os.path.join(workdir, "out_%d.ndjson" % k)
        common.write_ndjson(inp, [head] + parts[k])
        rc, err = common.run_harness("sched", ["--mode", "replay", "--in", inp, "--out", outp], timeout=3000, threads=1)
        evs = common.read_ndjson(outp)
        for p in (inp, outp):
            if os.path.exists(p):
                os.remove(p)
        if rc != 0:
            raise common.ToolError("rsv sched --mode replay failed rc=%s %s" % (rc, err[-800:]))
        return evs

    with ThreadPoolExecutor(max_workers=shards) as ex:
        outs = list(ex.map(one, range(shards)))
    os.rmdir(workdir)
    by_case = {}
    for evs in outs:
        for e in evs:
            by_case[e["case"]] = e
    return by_case


def build_traces(I, cases, by_case, d, max_events=2500):
    caps = walks.observed_caps([I])
    view = walks.walk_view(I, caps)
    chunks, index = [], []
    trace, idx = [{"ev": "load", "name": I["name"], "I": view}], []

    def flush():
        nonlocal trace, idx
        if len(trace) > 1:
            p = os.path.join(d, "replay_%d.ndjson" % len(chunks))
            common.write_ndjson(p, trace)
            chunks.append(p)
            index.append(idx)
        trace, idx = [{"ev": "load", "name": I["name"], "I": view}], []

    for k, c in enumerate(cases):
        e = by_case.get(k)
        if e is None:
            continue
        if len(trace) + 1 > max_events:
            flush()
        ev = dict(e)
        ev["li"] = 1
        ev["exp"] = {"A": c["A"], "cyc": c["cyc"]}
        common.check_ints(ev)
        trace.append(ev)
        idx.append((len(trace), k))
    flush()
    return chunks, index
