"""Seeded-change utilities.
  seedtest.py confirm <worktree> <seed-dir>   re-establish in the scratch worktree: tests pass with the change, demo fails
                                              with it and passes without it
  seedtest.py detect <seed-dir> <check> [<check> ...]   apply patch.diff to /repo, run the checks (quick), undo
"""
import json
import os
import subprocess
import sys
import time

REPO = "/repo"


def sh(cmd, cwd=None, env=None, timeout=3600):
    r = subprocess.run(cmd, shell=True, cwd=cwd, env=env, stdout=subprocess.PIPE, stderr=subprocess.STDOUT, text=True,
                       timeout=timeout)
    return r.returncode, r.stdout


def count_tests(out):
    p = f = 0
    for line in out.splitlines():
        if line.startswith("test result:"):
            parts = line.split()
            p += int(parts[3])
            f += int(parts[5])
    return p, f


def confirm(wt, seed):
    env = dict(os.environ, CARGO_TARGET_DIR=os.path.join(wt, "target"), CARGO_NET_OFFLINE="true")
    res = {}
    # demo files may live in the tree: park them while running the baseline suite
    demo_files = []
    for root in ("solution/tests", "server/tests", "server/examples", "internal/examples", "solver/tests", "model/tests"):
        d = os.path.join(wt, root)
        if os.path.isdir(d):
            for f in os.listdir(d):
                if f.startswith("seed_demo"):
                    demo_files.append(os.path.join(d, f))
    park = os.path.join(wt, "_parked")
    os.makedirs(park, exist_ok=True)
    for f in demo_files:
        os.rename(f, os.path.join(park, os.path.relpath(f, wt).replace("/", "__")))
    rc, out = sh("cargo test --workspace --no-fail-fast --offline", cwd=wt, env=env)
    res["tests_with_change"] = count_tests(out)
    for f in demo_files:
        os.rename(os.path.join(park, os.path.relpath(f, wt).replace("/", "__")), f)
    rc1, out1 = sh("bash _seeded/run_demo.sh", cwd=wt, env=env)
    res["demo_with_change_rc"] = rc1
    rc, out = sh("git stash push -- $(git diff --name-only)", cwd=wt)
    rc2, out2 = sh("bash _seeded/run_demo.sh", cwd=wt, env=env)
    res["demo_without_change_rc"] = rc2
    sh("git stash pop", cwd=wt)
    res["confirmed"] = res["tests_with_change"] == (53, 0) and rc1 != 0 and rc2 == 0
    print(json.dumps(res))
    return res


def detect(seed, checks):
    seed = os.path.abspath(seed)
    patch = os.path.join(seed, "patch.diff")
    rc, out = sh("git -C %s status --porcelain --untracked-files=no" % REPO)
    if out.strip():
        print("refusing: /repo has uncommitted changes")
        return 2
    rc, out = sh("git -C %s apply %s" % (REPO, patch))
    if rc != 0:
        print("patch does not apply:", out)
        return 2
    results = {}
    try:
        for c in checks:
            t0 = time.time()
            rc, out = sh("./bin/check %s --tier quick" % c, cwd="/verif", timeout=3600)
            viol = [l for l in out.splitlines() if l.startswith("VIOLATION")]
            results[c] = {"rc": rc, "violations": len(viol), "first": viol[0][:300] if viol else "",
                          "wall_s": round(time.time() - t0, 1),
                          "spec_deviations": [l.split(" occurrences")[0].replace("SPEC-DEVIATION ", "")
                                              for l in out.splitlines() if l.startswith("SPEC-DEVIATION")],
                          "tool_error": [l[:300] for l in out.splitlines() if l.startswith("TOOL-ERROR")][:1]}
            print(c, json.dumps(results[c]))
    finally:
        # undo: reverse-apply (this also removes files the patch created); whatever is left is reset
        sh("git -C %s apply -R %s" % (REPO, patch))
        sh("git -C %s checkout -- ." % REPO)
        rc2, left = sh("git -C %s status --porcelain" % REPO)
        if left.strip():
            print("WARNING: /repo not clean after undoing the patch:\n" + left)
    with open(os.path.join(seed, "detection.json"), "w") as f:
        json.dump({"checks": results, "at": time.strftime("%Y-%m-%dT%H:%M:%S")}, f, indent=1)
    return 0


if __name__ == "__main__":
    if sys.argv[1] == "confirm":
        confirm(sys.argv[2], sys.argv[3])
    else:
        sys.exit(detect(sys.argv[2], sys.argv[3:]))
