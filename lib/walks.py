"""Schedule-walk corpus: adaptive random walks over the public modification API (rsv sched),
turned into TraceSched traces."""
import json
import os
import time
from concurrent.futures import ThreadPoolExecutor

import common
import gen


def run_walks(instances, steps, seed, shards=8):
    exe_args = []
    workdir = os.path.join(common.WORK, "walk_%d" % os.getpid())
    os.makedirs(workdir, exist_ok=True)
    items = [{"name": I["name"], "input": gen.render(I), "steps": steps, "seed": seed * 7919 + k}
             for k, I in enumerate(instances)]
    shards = max(1, min(shards, len(items)))
    parts = [items[i::shards] for i in range(shards)]

    def one(k):
        inp = os.path.join(workdir, "in_%d.ndjson" % k)
        outp = os.path.join(workdir, "out_%d.ndjson" % k)
        common.write_ndjson(inp, parts[k])
        rc, err = common.run_harness("sched", ["--in", inp, "--out", outp], timeout=1800, threads=1)
        evs = common.read_ndjson(outp)
        for p in (inp, outp):
            if os.path.exists(p):
                os.remove(p)
        if rc != 0:
            raise common.ToolError("rsv sched failed rc=%s %s" % (rc, err[-500:]))
        return evs

    with ThreadPoolExecutor(max_workers=shards) as ex:
        outs = list(ex.map(one, range(shards)))
    try:
        os.rmdir(workdir)
    except OSError:
        pass
    by_name = {}
    for evs in outs:
        for e in evs:
            by_name.setdefault(e["name"], []).append(e)
    return by_name


DIGESTS = {}     # instance name -> fingerprint of the loaded network (solution::verif::network_digest)


def observed_caps(instances):
    """Capacities the loaded network reports for depots (used for defaulted, i.e. 'unlimited',
    depots: the schedule contracts are stated w.r.t. the capacity the implementation really uses;
    that this number is large enough is C17's business)."""
    workdir = os.path.join(common.WORK, "walkcap_%d" % os.getpid())
    os.makedirs(workdir, exist_ok=True)
    inp = os.path.join(workdir, "in.ndjson")
    outp = os.path.join(workdir, "out.ndjson")
    common.write_ndjson(inp, [{"name": I["name"], "input": gen.render(I)} for I in instances])
    rc, err = common.run_harness("netdump", ["--in", inp, "--out", outp])
    if rc != 0:
        raise common.ToolError("netdump failed rc=%s %s" % (rc, err))
    caps = {}
    for o in common.read_ndjson(outp):
        if o.get("ok"):
            caps[o["name"]] = {d["id"]: d["cap"] for d in o["obs"]["depots"]}
            DIGESTS[o["name"]] = o["obs"].get("digest", "")
    os.remove(inp)
    os.remove(outp)
    os.rmdir(workdir)
    return caps


def walk_view(I, caps):
    V = json.loads(json.dumps(gen.spec_view(I)))
    for d in V["depots"]:
        if d["cap"] == -1 and I["name"] in caps:
            d["cap"] = caps[I["name"]][d["id"]]
    return V


def build_trace(instances, by_name, caps=None):
    trace, meta = [], []
    caps = caps or {}
    for I in instances:
        evs = by_name.get(I["name"], [])
        trace.append({"ev": "load", "name": I["name"], "I": walk_view(I, caps)})
        li = len(trace)
        first = li
        cur = 0
        ops = {}
        for e in evs:
            if e["ev"] == "init":
                trace.append({"ev": "init", "li": li, "S": e["S"]})
                cur = len(trace)
            elif e["ev"] == "op":
                o = {"ev": "op", "li": li, "pi": cur, "op": e["op"], "args": e["args"], "ok": e["ok"],
                     "panic": e["panic"], "hb": e["hb"], "ha": e["ha"], "ret": e.get("ret", {}),
                     "msg": e.get("msg", "")}
                if e["ok"]:
                    o["S"] = e["S"]
                trace.append(o)
                if e["ok"]:
                    cur = len(trace)
                k = e["op"] + (":ok" if e["ok"] else ":panic" if e["panic"] else ":err")
                ops[k] = ops.get(k, 0) + 1
                for tag in branch_tags(e, trace[o["pi"] - 1]["S"]):
                    ops["tag:" + tag] = ops.get("tag:" + tag, 0) + 1
            elif e["ev"] == "topt":
                trace.append({"ev": "topt", "li": li, "pi": cur, "ok": e["ok"], "tr": e["tr"], "msg": e["msg"][:200]})
                ops["topt"] = ops.get("topt", 0) + 1
            elif e["ev"] == "loadfail":
                trace.append({"ev": "loadfail", "li": li, "panic": e["panic"]})
        meta.append({"name": I["name"], "first": first, "last": len(trace), "ops": ops})
    for t in trace:
        common.check_ints(t)
    return trace, meta


def branch_tags(e, pre):
    """Coverage tags of one call (which documented branch it exercised); counted, never judged."""
    tags = []
    a = e.get("args", {})
    if not e["ok"]:
        if e["op"] == "override_reassign" and not e["panic"] and a["s"].startswith("s_"):
            tp = [v for v in pre["veh"] if v["id"] == a["p"]]
            tr = [v for v in pre["veh"] if v["id"] == a["r"]]
            if tp and tr and tp[0]["ty"] != tr[0]["ty"] and "no capacity" in e.get("msg", ""):
                tags.append("cross_type_depot_takeover_refused")
        return tags
    post = e["S"]
    ids_post = {v["id"] for v in post["veh"]} | {d["id"] for d in post["dum"]}
    if "p" in a:
        if a["p"].startswith("dummy"):
            tags.append("provider_dummy")
        if a["r"].startswith("dummy"):
            tags.append("receiver_dummy")
        if a["p"] not in ids_post:
            tags.append("provider_deleted")
        if a["s"].startswith("s_") or a["e"].startswith("e_"):
            tags.append("segment_with_depot")
        tp = [v for v in pre["veh"] if v["id"] == a["p"]]
        tr = [v for v in pre["veh"] if v["id"] == a["r"]]
        if tp and tr and tp[0]["ty"] != tr[0]["ty"] and a["s"].startswith("s_"):
            tags.append("cross_type_depot_takeover")
    if len(post["dum"]) > len(pre["dum"]):
        tags.append("new_dummy")
    if len(post["veh"]) < len(pre["veh"]):
        tags.append("vehicle_disappears")
    if e["op"].startswith("spawn"):
        new = [v for v in post["veh"] if v["id"] == e.get("ret", {}).get("id")]
        if new and new[0]["n"][0] == "s_OVERFLOW_DEPOT":
            tags.append("overflow_start")
            if a.get("path") and a["path"][0].startswith("s_") and a["path"][0] != "s_OVERFLOW_DEPOT":
                tags.append("overflow_fallback")
    if e["op"] == "add_path_to_vehicle_tour" and e.get("ret", {}).get("removed"):
        tags.append("conflict_returned")
    if e["op"] == "fit_reassign" and "p" in a and a["p"] in ids_post:
        before = [v for v in pre["veh"] + pre["dum"] if v["id"] == a["p"]]
        after = [v for v in post["veh"] + post["dum"] if v["id"] == a["p"]]
        if before and after and 0 < len(before[0]["n"]) - len(after[0]["n"]):
            tags.append("fit_moved_some")
        if before and after and len(before[0]["n"]) == len(after[0]["n"]):
            tags.append("fit_moved_nothing")
    if any(len(f["v"]) >= 3 for f in post["form"]):
        tags.append("formation_of_3plus")
    return tags


def walk_instances(seed, n):
    out = []
    for i in range(n):
        I = gen.gen_instance(seed + 104729, i, max_trips=7)
        out.append(I)
    return out


def corpus(tier, seed, n=None, steps=None, chunk=20, instances=None, tag="walk"):
    if instances is None:
        n = n or (154 if tier == "quick" else 660)
        steps = steps or (45 if tier == "quick" else 120)
        d = common.cache_dir(tag, tier, seed, n, steps)
        mp = os.path.join(d, "meta.json")
        if os.path.exists(mp):
            with open(mp) as f:
                info = json.load(f)
            if all(os.path.exists(c) for c in info["chunks"]):
                return info
        instances = walk_instances(seed, n)
    else:
        steps = steps or 45
        d = os.path.join(common.WORK, "adhocw_%d_%d" % (os.getpid(), int(time.time() * 1000) % 100000))
        os.makedirs(d, exist_ok=True)
        mp = os.path.join(d, "meta.json")
    t0 = time.time()
    common.build_harness("release")
    caps = observed_caps(instances)
    by_name = run_walks(instances, steps, seed)
    chunks, metas = [], []
    for c in range(0, len(instances), chunk):
        part = instances[c:c + chunk]
        trace, meta = build_trace(part, by_name, caps)
        tp = os.path.join(d, "trace_%d.ndjson" % (c // chunk))
        common.write_ndjson(tp, trace)
        for m in meta:
            m["chunk"] = c // chunk
        chunks.append(tp)
        metas.extend(meta)
    info = {"chunks": chunks, "instances": metas, "n": len(instances), "steps": steps, "seed": seed,
            "index": {I["name"]: i for i, I in enumerate(instances)}, "wall_s": time.time() - t0}
    with open(mp, "w") as f:
        json.dump(info, f)
    common.log("[corpus] %s tier=%s n=%d steps=%d %.1fs" % (tag, tier, len(instances), steps, time.time() - t0))
    return info
