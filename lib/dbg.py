"""Debug helper: evaluate TLA+ expressions of a trace module at one event.
usage: dbg.py <TraceModule> <trace.ndjson> <l> <expr> [<expr> ...]"""
import os
import subprocess
import sys

sys.path.insert(0, os.path.dirname(os.path.abspath(__file__)))
import common


def main():
    module, trace, l = sys.argv[1], sys.argv[2], int(sys.argv[3])
    exprs = sys.argv[4:]
    name = "Dbg_%d" % os.getpid()
    path = os.path.join(common.SPEC, name + ".tla")
    with open(path, "w") as f:
        f.write("---- MODULE %s ----\nEXTENDS %s\n" % (name, module))
        f.write("DbgInit == l = %d\nDbgNext == FALSE /\\ l' = l\n" % l)
        for i, e in enumerate(exprs):
            f.write("DbgInv%d == PrintT(<<\"DBG\", %d, %s>>)\n" % (i, i, e))
        f.write("====\n")
    try:
        r = common.run_tlc(name, invariants=["DbgInv%d" % i for i in range(len(exprs))], trace=trace,
                           init="DbgInit", nxt="DbgNext", workers=1, cont=False)
        for line in r.output.splitlines():
            if True:
                print(line)
        if r.errors:
            print(r.output[-3000:])
    finally:
        os.remove(path)


main()
