"""Registry: property id -> how it is decided (which corpus, which TLA+ formulas, which coverage)."""
import json
import os
import time
from concurrent.futures import ThreadPoolExecutor

import common
import gen
import pipeline
import tours as tours_mod
from check import Finding, Outcome
from common import ToolError, log

REGISTRY = {}


def run_tlc_chunks(module, invariants, chunks, label, out, max_parallel=4, workers=4, timeout=1800, prints=None):
    """Validate every chunk (a self-contained trace) with TLC; returns [(chunk_index, violation)]."""
    viols = []

    def one(ci):
        return ci, common.run_tlc(module, invariants=invariants, trace=chunks[ci], workers=workers,
                                  timeout=timeout)

    if len(chunks) == 1:
        results = [one(0)]
    else:
        with ThreadPoolExecutor(max_workers=max_parallel) as ex:
            results = list(ex.map(one, range(len(chunks))))
    for ci, res in results:
        out.add_tlc("%s[%d]" % (label, ci), res)
        n_lines = sum(1 for _ in open(chunks[ci]))
        if res.distinct != n_lines:
            raise ToolError("%s chunk %d: TLC visited %d states but the trace has %d events" % (
                label, ci, res.distinct, n_lines))
        if prints is not None:
            prints.extend(res.prints)
        for v in res.violations:
            if v["l"] is None:
                raise ToolError("could not locate violation of %s in TLC output" % v["name"])
            viols.append((ci, v))
    return viols


# Formulas that bind behaviour beyond the text of the listed properties (the specification covers more of
# the system than the properties constrain): mismatches are reported as SPEC-DEVIATION lines and in the
# evidence, never as violations. Each property keeps formulas of its own that decide it.
CONFORMANCE_ONLY = {
    "P_C11_swapknown", "P_C11_swap", "P_C11_complete", "P_C11_sound",   # the neighbourhood as a function (Swaps.tla)
    "P_C13_fit_exact", "P_C13_fit_refusal",                             # fit_reassign as the greedy function
    "P_C13_recompute_exact",                                            # Transition::new_fast as a function (Rotation.tla)
    "P_C16_optfix",                                                     # the optimiser ends in a local optimum
}

# =========================================================================== pipeline properties
PIPE_INVS = {
    "C01": ["P_C01"],
    "C02": ["P_C02_formation", "P_C02_tracks", "P_C02_depots"],
    "C03": ["P_C03_complete", "P_C03_views", "P_C03_loads", "P_C03_deadheads"],
    "C04": ["P_C04_unserved", "P_C04_vehicles", "P_C04_costs", "P_C04_violation"],
    "C05": ["P_C05_partition", "P_C05_aligned", "P_C05_balance"],
    "C06": ["P_C06"],
    "C07": ["P_C07_coverage", "P_C07_start", "P_C07_mono"],
    "C14": ["P_C14_feasible", "P_C14_optimal", "P_C14_decoded"],
    "C16": ["P_C16_stages", "P_C16_start", "P_C16_transopt", "P_C16_cycles", "P_C16_final", "P_C16_output",
            "P_C16_chosen", "P_C16_optfix"],
}


def pipe_signature(prop, formula, ev, events):
    if formula == "P_C06":
        if ev.get("status") == "panic":
            msgs = [e["msg"] for e in events if e.get("ev") == "panic"]
            loc = msgs[0].split(" @ ")[-1] if msgs else "?"
            return "panic@" + loc
        return ev.get("status", "?")
    return formula


def pipe_coverage(infos):
    """Coverage counters measured on the recorded corpus (no property logic)."""
    cov = {"instances": 0, "solved_ok": 0, "outputs_with_2plus_cycles": 0, "cycles_len1": 0, "cycles_len2": 0,
           "cycles_len3plus": 0, "vehicles": 0, "overflow_used": 0, "ls_steps": 0, "max_wall_ms": 0,
           "transopt_changed_cycles": 0, "end_depot_moved": 0}
    tags = {}
    for info in infos:
        for m in info["instances"]:
            cov["instances"] += 1
            cov["solved_ok"] += m["status"] == "ok"
            cov["ls_steps"] += m["nsteps"]
            cov["max_wall_ms"] = max(cov["max_wall_ms"], m.get("wall_ms", 0))
        for name, ts in info["tags"].items():
            for t in ts:
                tags[t] = tags.get(t, 0) + 1
        for c in info["chunks"]:
            tr = common.read_ndjson(c)
            for e in tr:
                if e["ev"] == "output":
                    O = e["O"]
                    multi = False
                    for f in O["fleet"]:
                        ne = [c2 for c2 in f["cycles"] if c2]
                        multi = multi or len(ne) >= 2
                        for c2 in ne:
                            k = "cycles_len1" if len(c2) == 1 else "cycles_len2" if len(c2) == 2 else "cycles_len3plus"
                            cov[k] += 1
                        cov["vehicles"] += len(f["vehicles"])
                        if any(v["sd"] == "OVERFLOW_DEPOT" for v in f["vehicles"]):
                            cov["overflow_used"] += 1
                    cov["outputs_with_2plus_cycles"] += multi
                elif e["ev"] == "summary" and e["transopt"] and e["ls"] and e["final"]:
                    def cyc(S):
                        return sorted(tuple(c["v"]) for t in S["tr"] for c in t["cyc"] if c["v"])
                    a, b, f = tr[e["ls"] - 1]["S"], tr[e["transopt"] - 1]["S"], tr[e["final"] - 1]["S"]
                    cov["transopt_changed_cycles"] += cyc(a) != cyc(b)
                    ends_a = {v["id"]: v["n"][-1] for v in a["veh"]}
                    cov["end_depot_moved"] += any(ends_a.get(v["id"]) != v["n"][-1] for v in f["veh"])
    cov["instance_tags"] = tags
    cov["decoupled_instances"] = sum(1 for info in infos for c in info["chunks"]
                                     for e in common.read_ndjson(c) if e["ev"] == "load" and e.get("dec"))
    return cov


PIPE_NEEDS = {
    # property -> coverage counters / tags that must be positive, otherwise the corpus is vacuous
    "C02": (["solved_ok"], ["binding_type", "binding_seg", "binding_both", "coupled"]),
    "C05": (["outputs_with_2plus_cycles", "cycles_len1", "cycles_len2", "cycles_len3plus"], ["slots"]),
    "C07": (["solved_ok"], ["binding_type", "binding_seg", "coupled", "pax0"]),
    "C16": (["transopt_changed_cycles", "end_depot_moved"], ["slots"]),
    "C06": (["solved_ok"], ["zero_shunt", "tie", "coupled", "empty_depots", "default_depots"]),
    "C01": (["solved_ok"], ["forbid", "zero_shunt", "tie", "multi_type", "slots"]),
    "C03": (["solved_ok"], ["slots"]),
    "C04": (["solved_ok", "overflow_used"], ["slots"]),
    "C14": (["solved_ok", "decoupled_instances"], ["slots", "coupled", "multi_type"]),
}


class PipeProp:
    def __init__(self, profiles=("release",)):
        self.profiles = profiles

    def collect(self, prop, infos_by_profile, out):
        invs = PIPE_INVS[prop]
        for prof, info in infos_by_profile.items():
            viols = run_tlc_chunks("TracePipe", invs, info["chunks"], "TracePipe/%s/%s" % (prop, prof), out)
            by_chunk = {}
            for m in info["instances"]:
                by_chunk.setdefault(m["chunk"], []).append(m)
            traces = {}
            for ci, v in viols:
                if ci not in traces:
                    traces[ci] = common.read_ndjson(info["chunks"][ci])
                tr = traces[ci]
                m = [x for x in by_chunk[ci] if x["first"] <= v["l"] <= x["last"]][0]
                ev = tr[v["l"] - 1]
                events = tr[m["first"] - 1:m["last"]]
                inst = self.instance_of(info, m["name"])
                sig = pipe_signature(prop, v["name"], ev, events)
                detail = "event=%s%s profile=%s" % (ev["ev"], ":" + ev["label"] if "label" in ev else "", prof)
                payload = {"property": prop, "kind": "pipe", "formula": v["name"], "profile": prof,
                           "signature": sig, "instance": inst, "input": gen.render(inst),
                           "event": {k: ev[k] for k in ev if k not in ("S", "O")},
                           "panic": [e.get("msg") for e in events if e["ev"] == "panic"]}
                out.findings.append(Finding(prop, v["name"], "%s/%s" % (m["name"], prof), sig, detail, payload))
            out.traces += sum(1 for m in info["instances"])

    def instance_of(self, info, name):
        return pipeline.instance_of(info, name)

    def run(self, prop, tier, seed):
        out = Outcome()
        infos = {}
        for prof in self.profiles:
            infos[prof] = pipeline.corpus(tier, seed, prof)
        self.collect(prop, infos, out)
        cov = pipe_coverage(list(infos.values()))
        out.coverage.update(cov)
        out.coverage["formulas"] = PIPE_INVS[prop]
        out.coverage["profiles"] = list(self.profiles)
        need_cnt, need_tags = PIPE_NEEDS.get(prop, ([], []))
        missing = [k for k in need_cnt if not cov.get(k)] + [t for t in need_tags if not cov["instance_tags"].get(t)]
        if missing:
            raise ToolError("vacuous corpus for %s: no case with %s" % (prop, missing))
        info0 = infos[self.profiles[0]]
        for m in info0["instances"][:3]:
            I = self.instance_of(info0, m["name"])
            out.samples.append({"instance": m["name"], "trips": len(I["trips"]), "slots": len(I["slots"]),
                                "types": len(I["types"]), "status": m["status"], "ls_steps": m["nsteps"],
                                "tags": info0["tags"][m["name"]]})
        out.assumptions = [
            "valid instances are those produced by lib/gen.py (README input format, sizes <= 10 trips, <= 3 slots, <= 3 types)",
            "renderer (abstract instance -> README JSON), ISO time parser and solution::verif::project are trusted",
            "TLC evaluates the formulas of spec/TracePipe.tla on every recorded event; the reference network is derived from the abstract instance only",
        ]
        return out

    def replay(self, prop, path):
        with open(path) as f:
            payload = json.load(f)
        inst = payload["instance"]
        prof = payload.get("profile", "release")
        info = pipeline.corpus("quick", 0, prof, instances=[inst])
        info["adhoc"] = {inst["name"]: inst}
        out = Outcome()
        self.collect(prop, {prof: info}, out)
        return out

    def selftest(self, prop, tier, seed):
        import selftest
        return selftest.pipe(prop, tier, seed)


for _p in ("C01", "C02", "C03", "C04", "C05", "C07", "C14", "C16"):
    REGISTRY[_p] = PipeProp()
REGISTRY["C06"] = PipeProp(profiles=("release", "checked"))


# =========================================================================== C17 network
C17_INVS = ["P_C17_loads", "P_C17_nodes", "P_C17_limits", "P_C17_depots", "P_C17_overflow",
            "P_C17_deadheads", "P_C17_reach", "P_C17_succ", "P_C17_pred"]


def net_trace(instances, workdir):
    inp = os.path.join(workdir, "net_in.ndjson")
    outp = os.path.join(workdir, "net_out.ndjson")
    common.write_ndjson(inp, [{"name": I["name"], "input": gen.render(I)} for I in instances])
    rc, err = common.run_harness("netdump", ["--in", inp, "--out", outp])
    if rc != 0:
        raise ToolError("netdump failed rc=%s %s" % (rc, err))
    obs = common.read_ndjson(outp)
    if len(obs) != len(instances):
        raise ToolError("netdump returned %d records for %d instances" % (len(obs), len(instances)))
    trace = []
    for I, o in zip(instances, obs):
        trace.append({"ev": "load", "name": I["name"], "I": gen.spec_view(I)})
        li = len(trace)
        e = {"ev": "net", "li": li, "ok": o["ok"], "name": I["name"]}
        if o["ok"]:
            ob = o["obs"]
            for n in ob["nodes"]:
                n["t1"] = gen.parse_iso(n["t1"])
                n["t2"] = gen.parse_iso(n["t2"])
            e["obs"] = ob
        else:
            e["panic"] = o["panic"]
        trace.append(e)
    for t in trace:
        common.check_ints(t)
    os.remove(inp)
    os.remove(outp)
    return trace


class NetProp:
    def gen_instances(self, tier, seed):
        n = 200 if tier == "quick" else 3000
        insts = [gen.gen_instance(seed, i) for i in range(n)]
        # the tiny tie-heavy networks used for the tour semantics as well
        insts += [gen.gen_instance(seed + 7919, i, profile=p) for i in range(n // 4)
                  for p in ("tiny", "ties", "nonmetric")][: n // 2]
        return insts

    def validate(self, prop, instances, out, chunk=250):
        d = common.cache_dir("net_%d" % os.getpid())
        chunks = []
        for c in range(0, len(instances), chunk):
            tr = net_trace(instances[c:c + chunk], d)
            p = os.path.join(d, "trace_%d.ndjson" % (c // chunk))
            common.write_ndjson(p, tr)
            chunks.append(p)
        viols = run_tlc_chunks("TraceNet", C17_INVS, chunks, "TraceNet", out)
        for ci, v in viols:
            inst = instances[ci * chunk + (v["l"] - 1) // 2]
            sig = v["name"]
            payload = {"property": prop, "kind": "net", "formula": v["name"], "signature": sig,
                       "instance": inst, "input": gen.render(inst)}
            out.findings.append(Finding(prop, v["name"], inst["name"], sig, "", payload))
        for p in chunks:
            os.remove(p)
        out.traces += len(instances)

    def run(self, prop, tier, seed):
        out = Outcome()
        insts = self.gen_instances(tier, seed)
        # all tiny networks enumerated by TLC (Gen_Tour: ties, zero shunting, forbidden / asymmetric /
        # faster-than-shunting dead-heads); Gen_Tour!ReachLaws is checked on each of them
        bnd = {"MaxActs": "2", "MaxMnt": "1", "Starts": "{0,1}", "Durs": "{1,2}"} if tier == "quick" else \
              {"MaxActs": "2", "MaxMnt": "1", "Starts": "{0,1,2}", "Durs": "{1,2}"}
        cases = tours_mod.run_gen(tier, out, bnd=bnd)
        tiny = [gen.complete_view(c["I"], name="tlc%d" % k) for k, c in enumerate(cases)]
        out.coverage["tlc_enumerated_networks"] = len(tiny)
        insts = insts + tiny
        self.validate(prop, insts, out)
        tags = {}
        for I in insts:
            for t in gen.classify(I):
                tags[t] = tags.get(t, 0) + 1
        out.coverage["instances"] = len(insts)
        out.coverage["instance_tags"] = tags
        out.coverage["formulas"] = C17_INVS
        missing = [t for t in ("tie", "zero_shunt", "forbid", "limit_seg", "limit_type", "limit_both", "limit_none",
                               "default_depots", "empty_depots", "coupled", "multi_type", "pax0") if not tags.get(t)]
        if missing:
            raise ToolError("vacuous corpus for C17: no instance with %s" % missing)
        for I in insts[:3]:
            out.samples.append({"instance": I["name"], "trips": len(I["trips"]), "slots": len(I["slots"]),
                                "depots": len(I["depots"]), "tags": sorted(gen.classify(I))})
        out.assumptions = [
            "valid instances are those produced by lib/gen.py; the renderer is trusted",
            "all public Network getters are compared for every node / ordered pair of every instance",
        ]
        return out

    def replay(self, prop, path):
        with open(path) as f:
            payload = json.load(f)
        out = Outcome()
        self.validate(prop, [payload["instance"]], out)
        return out

    def selftest(self, prop, tier, seed):
        import selftest
        return selftest.net(prop, tier, seed)


REGISTRY["C17"] = NetProp()


# =========================================================================== schedule walks (C09, C10, C13)
import walks  # noqa: E402

WALK_INVS = {
    "C09": ["P_C09_tour", "P_C09_sched", "P_C09_viol", "P_C09_trans", "P_C09_depot"],
    "C10": ["P_C10_tours", "P_C10_formations", "P_C10_limits", "P_C10_listings", "P_C10_cycles"],
    "C13": ["P_C13_nopanic", "P_C13_input", "P_C13_refusal", "P_C13_enabled", "P_C13_effect", "P_C13_cycles",
            "P_C13_fit_exact", "P_C13_fit_refusal", "P_C13_recompute_exact"],
    "C15": ["P_C15_topt"],
}
PIPE_STAGE_INVS = {
    "C09": ["P_stage_caches_tour", "P_stage_caches_sched", "P_stage_caches_viol", "P_stage_caches_trans",
            "P_stage_caches_depot"],
    "C10": ["P_stage_inv"],
}
ALL_OPS = ["spawn_vehicle_for_path", "spawn_vehicle_to_replace_dummy_tour", "replace_vehicle_by_dummy",
           "add_path_to_vehicle_tour", "remove_segment", "override_reassign", "fit_reassign", "improve_depots",
           "reassign_end_depots_greedily", "reassign_end_depots_consistent_with_transitions",
           "recompute_transitions_for", "set_next_day_transitions"]


class WalkProp:
    def collect(self, prop, info, out, instance_of):
        viols = run_tlc_chunks("TraceSched", WALK_INVS[prop], info["chunks"], "TraceSched/%s" % prop, out)
        by_chunk = {}
        for m in info["instances"]:
            by_chunk.setdefault(m["chunk"], []).append(m)
        traces = {}
        for ci, v in viols:
            if ci not in traces:
                traces[ci] = common.read_ndjson(info["chunks"][ci])
            tr = traces[ci]
            m = [x for x in by_chunk[ci] if x["first"] <= v["l"] <= x["last"]][0]
            ev = tr[v["l"] - 1]
            inst = instance_of(m["name"])
            op = ev.get("op", ev["ev"])
            sig = "%s:%s" % (v["name"], op)
            if ev.get("panic"):
                sig += ":panic@" + ev.get("msg", "").split(" @ ")[-1]
            # the history up to the offending call (operation names and arguments)
            hist = [{"op": e["op"], "args": e["args"], "ok": e["ok"]} for e in tr[m["first"] - 1:v["l"]]
                    if e["ev"] == "op"]
            payload = {"property": prop, "kind": "walk", "formula": v["name"], "signature": sig,
                       "instance": inst, "input": gen.render(inst), "steps": info["steps"], "seed": info["seed"],
                       "walk_index": info["index"][m["name"]], "event_line": v["l"] - m["first"],
                       "call": {k: ev.get(k) for k in ("op", "args", "ok", "panic", "msg", "ret")},
                       "history": hist[-40:]}
            detail = "op=%s args=%s ok=%s %s" % (op, json.dumps(ev.get("args")), ev.get("ok"), ev.get("msg", "")[:80])
            out.findings.append(Finding(prop, v["name"], "%s@%d" % (m["name"], v["l"] - m["first"]), sig, detail, payload))
        out.traces += len(info["instances"])

    def run(self, prop, tier, seed):
        out = Outcome()
        info = walks.corpus(tier, seed)
        insts = None

        def instance_of(name):
            nonlocal insts
            if insts is None:
                insts = walks.walk_instances(seed, info["n"])
            return insts[info["index"][name]]

        self.collect(prop, info, out, instance_of)
        ops = {}
        for m in info["instances"]:
            for k, c in m["ops"].items():
                ops[k] = ops.get(k, 0) + c
        out.coverage["calls"] = ops
        out.coverage["walks"] = len(info["instances"])
        out.coverage["formulas"] = list(WALK_INVS[prop])
        missing = [o for o in ALL_OPS if not ops.get(o + ":ok")]
        missing += [t for t in ("provider_dummy", "receiver_dummy", "provider_deleted", "new_dummy", "vehicle_disappears",
                                "overflow_start", "overflow_fallback", "conflict_returned", "fit_moved_some",
                                "segment_with_depot", "formation_of_3plus", "cross_type_depot_takeover") if not ops.get("tag:" + t)]
        if missing:
            raise ToolError("vacuous walk corpus: never exercised: %s" % missing)
        # stage snapshots and local-search steps of the pipeline corpus are validated as well
        if prop in PIPE_STAGE_INVS:
            pinfo = pipeline.corpus(tier, seed, "release")
            pv = run_tlc_chunks("TracePipe", PIPE_STAGE_INVS[prop], pinfo["chunks"], "TracePipe/%s" % prop, out)
            by_chunk = {}
            for m in pinfo["instances"]:
                by_chunk.setdefault(m["chunk"], []).append(m)
            for ci, v in pv:
                m = [x for x in by_chunk[ci] if x["first"] <= v["l"] <= x["last"]][0]
                inst = pipeline.instance_of(pinfo, m["name"])
                payload = {"property": prop, "kind": "pipe", "formula": v["name"], "profile": "release",
                           "signature": v["name"], "instance": inst, "input": gen.render(inst)}
                out.findings.append(Finding(prop, v["name"], m["name"] + "/pipeline", v["name"], "stage snapshot", payload))
            out.traces += len(pinfo["instances"])
            out.coverage["pipeline_instances"] = len(pinfo["instances"])
        m0 = info["instances"][0]
        tr0 = common.read_ndjson(info["chunks"][0])
        out.samples.append({"walk": m0["name"], "calls": [
            {"op": e["op"], "args": e["args"], "ok": e["ok"]} for e in tr0[m0["first"] - 1:m0["last"]]
            if e["ev"] == "op"][:8]})
        out.assumptions = [
            "histories are adaptive random walks over all 12 public modifications starting from Schedule::empty; "
            "arguments are drawn from the implementation's current state (valid and some refusable ones)",
            "the contract of each call is spec/Schedule.tla (deterministic where documented, relational for depot choice, "
            "greedy fitting and cycle construction); defaulted ('unlimited') depots use the capacity the loaded network reports",
            "walks never exhaust the artificial overflow depot",
        ]
        return out

    def replay(self, prop, path):
        with open(path) as f:
            payload = json.load(f)
        out = Outcome()
        if payload.get("kind") == "pipe":
            inst = payload["instance"]
            info = pipeline.corpus("quick", 0, "release", instances=[inst])
            pv = run_tlc_chunks("TracePipe", PIPE_STAGE_INVS[prop], info["chunks"], "TracePipe/%s" % prop, out)
            for ci, v in pv:
                out.findings.append(Finding(prop, v["name"], inst["name"], v["name"], "stage snapshot", payload))
            return out
        inst = payload["instance"]
        # same walk: same instance position (seed derivation uses the index) is reproduced by
        # regenerating the corpus prefix deterministically
        idx = payload["walk_index"]
        seed = payload["seed"]
        insts = walks.walk_instances(seed, idx + 1)
        info = walks.corpus("quick", seed, instances=insts, steps=payload["steps"])
        self.collect(prop, info, out, lambda name: insts[info["index"][name]])
        out.findings = [f for f in out.findings if f.case.startswith(inst["name"] + "@")]
        return out

    def selftest(self, prop, tier, seed):
        import selftest
        return selftest.walk(prop, tier, seed)


for _p in ("C09", "C10", "C13"):
    REGISTRY[_p] = WalkProp()


# =========================================================================== C12 tour edits

C12_INVS = ["P_C12_nopanic", "P_C12_loads", "P_C12_mat", "P_C12_insert", "P_C12_conflict", "P_C12_position",
            "P_C12_removable", "P_C12_remove", "P_C12_subpath", "P_C12_depots", "P_C09_tourfig"]


class TourProp:
    def validate(self, prop, cases, out, d, stride=1, rstride=1, batch=1200):
        """Execute and validate in batches (bounded memory: a batch is dropped before the next starts)."""
        total = {}
        for b in range(0, len(cases), batch):
            part = cases[b:b + batch]
            counts = self.validate_batch(prop, part, out, d, stride, rstride, b)
            for k, v in counts.items():
                total[k] = total.get(k, 0) + v
            for c in part:
                c.pop("_I", None)
        return total

    def validate_batch(self, prop, cases, out, d, stride, rstride, offset):
        by_name = tours_mod.execute(cases, stride=stride, rstride=rstride)
        chunks, index = tours_mod.build_traces(cases, by_name, d)
        viols = run_tlc_chunks("TraceTour", C12_INVS, chunks, "TraceTour", out, max_parallel=12, workers=1)
        traces = {}
        ops = {}
        for ci, v in viols:
            if ci not in traces:
                traces[ci] = common.read_ndjson(chunks[ci])
            ev = traces[ci][v["l"] - 1]
            first, last, k = [x for x in index[ci] if x[0] <= v["l"] <= x[1]][0]
            c = cases[k]
            sig = "%s:%s" % (v["name"], ev.get("op", ev["ev"]))
            payload = {"property": prop, "kind": "tour", "formula": v["name"], "signature": sig,
                       "case": {"I": c["I"], "tours": c["tours"], "dummies": c["dummies"], "paths": c["paths"]},
                       "event": {k2: ev[k2] for k2 in ev if k2 != "fig"}}
            detail = json.dumps({k2: ev[k2] for k2 in ev if k2 in ("op", "tour", "path", "s", "e", "res", "removed", "ok", "msg")})
            out.findings.append(Finding(prop, v["name"], "net%d@%d" % (k + offset, v["l"] - first), sig, detail, payload))
        for ci, p in enumerate(chunks):
            if ci not in traces:
                pass
        counts = {}
        for name, evs in by_name.items():
            for e in evs:
                counts[e.get("op", e["ev"])] = counts.get(e.get("op", e["ev"]), 0) + 1
        for p in chunks:
            os.remove(p)
        out.traces += len(cases)
        by_name.clear()
        return counts

    def run(self, prop, tier, seed):
        out = Outcome()
        d = common.cache_dir("tourcases", tier)
        cases = tours_mod.run_gen(tier, out)
        counts = self.validate(prop, cases, out, d)
        # three-node tours and dummy tours: quick = all networks with exactly three unit-length service trips
        # (every remove / sub_path case, every 9th insert); thorough = all networks with exactly three
        # activities (<= 1 slot, durations 1-2) on the 3-point grid (every 4th remove case per network kept via
        # the depot stride, every 25th insert)
        cases3 = tours_mod.run_gen(tier, out, bnd=tours_mod.bounds3(tier), configs=tours_mod.CONFIGS3)
        st, rst = (9, 4) if tier == "quick" else (25, 8)
        counts3 = self.validate(prop, cases3, out, d, stride=st, rstride=rst)
        for k, v in counts3.items():
            counts[k] = counts.get(k, 0) + v
        out.coverage["networks_with_three_activities"] = len(cases3)
        out.coverage["bounds_three"] = tours_mod.bounds3(tier)
        ncases = len(cases) + len(cases3)
        cases = cases[:1]
        out.coverage["networks"] = ncases
        out.coverage["executed_cases"] = counts
        out.coverage["bounds"] = tours_mod.bounds(tier)
        out.coverage["exhaustive"] = True
        out.coverage["formulas"] = C12_INVS + ["Gen_Tour!Laws"]
        need = ["insert", "remove", "sub_path", "removable", "conflict", "lnr", "rsd", "red", "mat"]
        missing = [o for o in need if not counts.get(o)]
        if missing:
            raise ToolError("vacuous C12 corpus: no case of %s" % missing)
        out.samples.append({"network": cases[0]["I"]["trips"], "slots": cases[0]["I"]["slots"],
                            "tours": cases[0]["tours"][:3], "paths": cases[0]["paths"][:4]})
        out.assumptions = [
            "exhaustive: every network with at most MaxActs activities (2 locations, the stated time grid, all 12 "
            "configurations of shunting / forbidden dead-heads / asymmetric matrix), every valid tour (2 depot pairs) "
            "and dummy tour, every path (4 depot variants) and every segment",
            "tours are materialised through Schedule::spawn_vehicle_for_path / replace_vehicle_by_dummy and read with tour_of",
            "the schedule-level use of the same edits on random instances is validated by C13's walks",
        ]
        return out

    def replay(self, prop, path):
        with open(path) as f:
            payload = json.load(f)
        out = Outcome()
        d = os.path.join(common.WORK, "replay_tour_%d" % os.getpid())
        os.makedirs(d, exist_ok=True)
        self.validate(prop, [payload["case"]], out, d)
        return out

    def selftest(self, prop, tier, seed):
        import selftest
        return selftest.tour(prop, tier, seed)


REGISTRY["C12"] = TourProp()


# =========================================================================== C15 rotation bookkeeping
import transitions as trans_mod  # noqa: E402

C15_INVS = ["P_C15_nopanic", "P_C15_partition", "P_C15_inv", "P_C15_lookup", "P_C15_empty", "P_C15_model"]


class TransProp:
    def bounds(self, tier):
        return (4, 4) if tier == "quick" else (4, 6)

    def run(self, prop, tier, seed):
        out = Outcome()
        nveh, depth = self.bounds(tier)
        I, veh, probe, cases = trans_mod.run_model(out, nveh, depth)
        by_case = trans_mod.execute(I, veh, probe, cases)
        d = common.cache_dir("transcases", tier)
        chunks, index = trans_mod.build_traces(I, veh, cases, by_case, d)
        viols = run_tlc_chunks("TraceTrans", C15_INVS, chunks, "TraceTrans", out, max_parallel=12, workers=1)
        traces = {}
        for ci, v in viols:
            if ci not in traces:
                traces[ci] = common.read_ndjson(chunks[ci])
            ev = traces[ci][v["l"] - 1]
            first, last, k = [x for x in index[ci] if x[0] <= v["l"] <= x[1]][0]
            c = cases[k]
            opname = ev.get("op", {}).get("op", "hist") if ev.get("stage") == "next" else "hist"
            sig = "%s:%s" % (v["name"], opname)
            payload = {"property": prop, "kind": "trans", "formula": v["name"], "signature": sig, "nveh": nveh,
                       "case": {"hist": c["hist"], "next": [ev["op"]] if ev.get("stage") == "next" else [], "T": c["T"]},
                       "observed": ev.get("obs"), "msg": ev.get("msg")}
            detail = "hist=%s op=%s" % (json.dumps(c["hist"]), json.dumps(ev.get("op")))
            out.findings.append(Finding(prop, v["name"], "case%d" % k, sig, detail, payload))
        nevents = sum(len(v) for v in by_case.values())
        for p in chunks:
            os.remove(p)
        out.traces += len(cases)
        opc = {}
        for c in cases:
            for o in c["hist"][-1:] + c["next"]:
                opc[o["op"]] = opc.get(o["op"], 0) + 1
        out.coverage["model_states"] = len(cases)
        out.coverage["executed_observations"] = nevents
        out.coverage["executed_operations"] = opc
        out.coverage["bounds"] = {"vehicles": nveh, "history_depth": depth, "alternative_tours_per_vehicle": 2, "max_cycles": 4}
        out.coverage["exhaustive"] = True
        missing = [o for o in ("update", "add_own", "remove", "add_end", "move", "three_opt") if not opc.get(o)]
        if missing:
            raise ToolError("vacuous C15 model run: operations never explored: %s" % missing)
        # the transitions produced in the solve pipeline: caches, partition, optimisation never worsens
        pinfo = pipeline.corpus(tier, seed, "release")
        pv = run_tlc_chunks("TracePipe", ["P_C15_opt", "P_stage_caches_trans", "P_stage_caches_viol"], pinfo["chunks"],
                            "TracePipe/C15", out)
        by_chunk = {}
        for m in pinfo["instances"]:
            by_chunk.setdefault(m["chunk"], []).append(m)
        for ci, v in pv:
            m = [x for x in by_chunk[ci] if x["first"] <= v["l"] <= x["last"]][0]
            inst = pipeline.instance_of(pinfo, m["name"])
            payload = {"property": prop, "kind": "pipe", "formula": v["name"], "profile": "release",
                       "signature": v["name"], "instance": inst, "input": gen.render(inst)}
            out.findings.append(Finding(prop, v["name"], m["name"] + "/pipeline", v["name"], "pipeline", payload))
        out.traces += len(pinfo["instances"])
        cov = pipe_coverage([pinfo])
        out.coverage["pipeline"] = {k: cov[k] for k in ("instances", "solved_ok", "transopt_changed_cycles",
                                                        "outputs_with_2plus_cycles")}
        # the real transition optimiser on the schedules the random walks reach (every 4th state)
        winfo = walks.corpus(tier, seed)
        winsts = []

        def winstance_of(name):
            if not winsts:
                winsts.extend(walks.walk_instances(seed, winfo["n"]))
            return winsts[winfo["index"][name]]

        WalkProp().collect(prop, winfo, out, winstance_of)
        ntopt = sum(m["ops"].get("topt", 0) for m in winfo["instances"])
        out.coverage["optimiser_runs_on_walk_states"] = ntopt
        if ntopt < 100:
            raise ToolError("vacuous C15 walk leg: only %d optimiser runs" % ntopt)
        out.samples.append({"history": cases[min(50, len(cases) - 1)]["hist"], "model_state": cases[min(50, len(cases) - 1)]["T"]})
        out.assumptions = [
            "exhaustive over all operation sequences up to the stated depth on the stated pool (4 vehicles x 2 alternative tours, "
            "3 depots with asymmetric distances + overflow depot, tours with and without maintenance); every model state is replayed "
            "by one shortest history and every operation enabled in it is executed once",
            "the private empty-cycle list is observed by probing add_vehicle_to_own_cycle; the private lookup by get_successor_of",
        ]
        return out

    def replay(self, prop, path):
        with open(path) as f:
            payload = json.load(f)
        out = Outcome()
        if payload.get("kind") == "walk":
            return WalkProp().replay(prop, path)
        if payload.get("kind") == "pipe":
            inst = payload["instance"]
            info = pipeline.corpus("quick", 0, "release", instances=[inst])
            pv = run_tlc_chunks("TracePipe", ["P_C15_opt", "P_stage_caches_trans", "P_stage_caches_viol"],
                                info["chunks"], "TracePipe/C15", out)
            for ci, v in pv:
                out.findings.append(Finding(prop, v["name"], inst["name"], v["name"], "pipeline", payload))
            return out
        I, veh, probe = trans_mod.pool_instance()
        veh = veh[:payload["nveh"]]
        cases = [payload["case"]]
        by_case = trans_mod.execute(I, veh, probe, cases)
        d = os.path.join(common.WORK, "replay_trans_%d" % os.getpid())
        os.makedirs(d, exist_ok=True)
        chunks, index = trans_mod.build_traces(I, veh, cases, by_case, d)
        viols = run_tlc_chunks("TraceTrans", C15_INVS, chunks, "TraceTrans", out, workers=1)
        for ci, v in viols:
            out.findings.append(Finding(prop, v["name"], "case0", payload["signature"], "", payload))
        return out

    def selftest(self, prop, tier, seed):
        import selftest
        return selftest.trans(prop, tier, seed)


REGISTRY["C15"] = TransProp()


# =========================================================================== C08 / C11 local search
class LsFixProp(PipeProp):
    """C08: trajectories of the real local search (hook H1) + re-run on its own result."""
    INVS = ["P_C08_descent", "P_C08_result", "P_C08_fix", "P_C06"]

    def collect_ls(self, prop, info, out):
        viols = run_tlc_chunks("TracePipe", self.INVS, info["chunks"], "TracePipe/C08", out)
        by_chunk = {}
        for m in info["instances"]:
            by_chunk.setdefault(m["chunk"], []).append(m)
        traces = {}
        for ci, v in viols:
            if ci not in traces:
                traces[ci] = common.read_ndjson(info["chunks"][ci])
            tr = traces[ci]
            m = [x for x in by_chunk[ci] if x["first"] <= v["l"] <= x["last"]][0]
            ev = tr[v["l"] - 1]
            inst = self.instance_of(info, m["name"])
            events = tr[m["first"] - 1:m["last"]]
            sig = pipe_signature(prop, v["name"], ev, events)
            payload = {"property": prop, "kind": "lsfix", "formula": v["name"], "signature": sig, "instance": inst,
                       "input": gen.render(inst), "event": {k: ev[k] for k in ev if k not in ("S", "O")}}
            out.findings.append(Finding(prop, v["name"], m["name"], sig, "event=%s %s" % (ev["ev"], ev.get("label", "")), payload))
        out.traces += len(info["instances"])

    def corpus(self, tier, seed, instances=None):
        n = 440 if tier == "quick" else 2200
        return pipeline.corpus(tier, seed, "release", n=n, tag="lsfix", cmd=("ls", "--mode", "fix"),
                               only_slots=True, seed_shift=31, instances=instances, per_instance_timeout=120)

    def run(self, prop, tier, seed):
        out = Outcome()
        info = self.corpus(tier, seed)
        self.collect_ls(prop, info, out)
        # the trajectories inside the full pipeline as well
        pinfo = pipeline.corpus(tier, seed, "release")
        self_inv = ["P_C08_descent", "P_C08_result"]
        pv = run_tlc_chunks("TracePipe", self_inv, pinfo["chunks"], "TracePipe/C08/pipe", out)
        by_chunk = {}
        for m in pinfo["instances"]:
            by_chunk.setdefault(m["chunk"], []).append(m)
        for ci, v in pv:
            m = [x for x in by_chunk[ci] if x["first"] <= v["l"] <= x["last"]][0]
            inst = pipeline.instance_of(pinfo, m["name"])
            payload = {"property": prop, "kind": "pipe", "formula": v["name"], "profile": "release",
                       "signature": v["name"], "instance": inst, "input": gen.render(inst)}
            out.findings.append(Finding(prop, v["name"], m["name"] + "/pipeline", v["name"], "pipeline", payload))
        steps = sum(m["nsteps"] for m in info["instances"])
        with_steps = sum(1 for m in info["instances"] if m["nsteps"] > 0)
        out.coverage.update({"instances_with_slots": len(info["instances"]), "accepted_steps": steps,
                             "trajectories_with_steps": with_steps,
                             "max_trajectory": max([m["nsteps"] for m in info["instances"]] + [0]),
                             "pipeline_steps": sum(m["nsteps"] for m in pinfo["instances"]),
                             "formulas": self.INVS})
        if steps < 20 or with_steps < 5:
            raise ToolError("vacuous C08 corpus: only %d accepted steps in %d trajectories" % (steps, with_steps))
        for m in info["instances"][:3]:
            out.samples.append({"instance": m["name"], "accepted_steps": m["nsteps"], "status": m["status"]})
        out.assumptions = [
            "instances with maintenance slots from lib/gen.py; start = improve_depots(MinCostFlowSolver::solve())",
            "objectives are recomputed by the specification from the projected schedules (never read from the caches)",
            "hook H1 records the schedule handed to function_between_steps (the accepted one)",
        ]
        return out

    def replay(self, prop, path):
        with open(path) as f:
            payload = json.load(f)
        inst = payload["instance"]
        out = Outcome()
        if payload.get("kind") == "pipe":
            info = pipeline.corpus("quick", 0, "release", instances=[inst])
            info["adhoc"] = {inst["name"]: inst}
            pv = run_tlc_chunks("TracePipe", ["P_C08_descent", "P_C08_result"], info["chunks"], "TracePipe/C08", out)
            for ci, v in pv:
                out.findings.append(Finding(prop, v["name"], inst["name"], v["name"], "pipeline", payload))
            return out
        info = self.corpus("quick", 0, instances=[inst])
        info["adhoc"] = {inst["name"]: inst}
        self.collect_ls(prop, info, out)
        return out


REGISTRY["C08"] = LsFixProp()



class LsCandProp(PipeProp):
    """C11: all candidates of schedules reached by random walks through the neighbourhood."""
    INVS = ["P_C11_inv", "P_C11_caches", "P_C11_enum", "P_C11_project", "P_C06"]
    # the neighbourhood as a function of the base schedule (Swaps.tla): every candidate is what its swap yields,
    # and the set of candidates is exactly the set of applicable swaps
    SWAP_INVS = ["P_C11_swapknown", "P_C11_swap", "P_C11_complete", "P_C11_sound", "Cov"]
    SWAP_BRANCHES = ["PE:real->real:no_conflict", "PE:real->real:fit_all", "PE:real->real:fit_some",
                     "PE:real->real:fit_nothing", "PE:real->real:provider_replaced_by_new_vehicle",
                     "PE:dummy->real:no_conflict", "PE:dummy->real:provider_dummy_gone", "PE:real->dummy:no_conflict",
                     "SM:no_conflict", "SM:conflict_gets_new_vehicle", "HH", "RN:trip", "RN:slot", "RN:vehicle_deleted"]

    def corpus(self, tier, seed, instances=None):
        n = 88 if tier == "quick" else 660
        steps = 4 if tier == "quick" else 8

        def extra(k, I):
            return {"steps": steps, "seed": seed * 1000 + k}

        return pipeline.corpus(tier, seed, "release", n=n, tag="lscand", cmd=("ls", "--mode", "cand", "--max-cands", "150"),
                               extra=extra, seed_shift=57, instances=instances, per_instance_timeout=120, chunk=6)

    def collect_c(self, prop, info, out):
        viols = run_tlc_chunks("TracePipe", self.INVS, info["chunks"], "TracePipe/C11", out, max_parallel=8, workers=2)
        prints = []
        viols += run_tlc_chunks("TraceSwap", self.SWAP_INVS, info["chunks"], "TraceSwap/C11", out, max_parallel=8,
                                workers=2, prints=prints)
        branches = {}
        sizes = []
        for line in prints:
            if '"COV"' in line:
                b = line.split('"')[3]
                branches[b] = branches.get(b, 0) + 1
            elif '"NBH"' in line:
                sizes.append(int(line.rstrip(">").split(",")[-1]))
        out.coverage["swap_branches"] = branches
        out.coverage["neighbourhoods_compared"] = len(sizes)
        out.coverage["largest_neighbourhood"] = max(sizes) if sizes else 0
        by_chunk = {}
        for m in info["instances"]:
            by_chunk.setdefault(m["chunk"], []).append(m)
        traces = {}
        for ci, v in viols:
            if ci not in traces:
                traces[ci] = common.read_ndjson(info["chunks"][ci])
            tr = traces[ci]
            m = [x for x in by_chunk[ci] if x["first"] <= v["l"] <= x["last"]][0]
            ev = tr[v["l"] - 1]
            inst = self.instance_of(info, m["name"])
            events = tr[m["first"] - 1:m["last"]]
            sig = pipe_signature(prop, v["name"], ev, events)
            if ev["ev"] in ("cand", "candfail"):
                sig += ":" + (ev.get("kind") or ev.get("swap", "").split(" ")[0])
            payload = {"property": prop, "kind": "lscand", "formula": v["name"], "signature": sig, "instance": inst,
                       "input": gen.render(inst), "seed": info["seed"], "event": {k: ev[k] for k in ev if k not in ("S", "O")},
                       "index": info["index"].get(m["name"], 0)}
            out.findings.append(Finding(prop, v["name"], "%s@%d" % (m["name"], v["l"] - m["first"]), sig,
                                        "event=%s %s" % (ev["ev"], ev.get("swap", ev.get("msg", ""))[:80]), payload))
        out.traces += len(info["instances"])

    def run(self, prop, tier, seed):
        out = Outcome()
        info = self.corpus(tier, seed)
        self.collect_c(prop, info, out)
        ncand = sum(m["ncand"] for m in info["instances"])
        nenum = sum(m["nenum"] for m in info["instances"])
        kinds = {}
        for c in info["chunks"]:
            for e in common.read_ndjson(c):
                if e["ev"] == "cand":
                    k = e.get("kind") or e["swap"].split(" ")[0]
                    kinds[k] = kinds.get(k, 0) + 1
        out.coverage.update({"instances": len(info["instances"]), "candidates_validated": ncand,
                             "candidates_enumerated": nenum, "candidates_by_swap": kinds, "formulas": self.INVS})
        need = ["SpawnVehicleForMaintenance", "PathExchange", "AddTripForHitchHiking", "RemoveSingleNode"]
        missing = [k for k in need if not kinds.get(k)]
        out.coverage["swap_branches_never_taken"] = [b for b in self.SWAP_BRANCHES
                                                     if not out.coverage.get("swap_branches", {}).get(b)]
        if missing or ncand < 500:
            raise ToolError("vacuous C11 corpus: %d candidates, missing swap kinds %s" % (ncand, missing))
        out.samples.append({"instance": info["instances"][0]["name"], "candidates": info["instances"][0]["ncand"]})
        out.assumptions = [
            "walks move to a uniformly random candidate (not the best one); when a schedule has more than 150 candidates a "
            "random residue class of them is projected (all are generated, so a panic in any of them is seen)",
            "neighbourhood = RSSchedParallelNeighborhood with the limits used by build_local_search_solver (3:00:00, 0:10:00)",
        ]
        return out

    def selftest(self, prop, tier, seed):
        import selftest
        return selftest.lscand(prop, tier, seed)

    def replay(self, prop, path):
        with open(path) as f:
            payload = json.load(f)
        inst = payload["instance"]
        out = Outcome()
        insts = [gen.gen_instance(0, 0)] * 0 + [inst]
        n = 4
        info = pipeline.corpus("quick", payload.get("seed", 0) - 57, "release", instances=insts, tag="lscand",
                               cmd=("ls", "--mode", "cand", "--max-cands", "150"),
                               extra=lambda k, I: {"steps": 4, "seed": (payload.get("seed", 57) - 57) * 1000 + payload.get("index", 0)},
                               per_instance_timeout=120, chunk=6)
        info["adhoc"] = {inst["name"]: inst}
        self.collect_c(prop, info, out)
        return out


REGISTRY["C11"] = LsCandProp()


# =========================================================================== C18 HTTP service
import httpdrive  # noqa: E402

C18_INVS = ["P_C18_answered", "P_C18_health", "P_C18_own_solution", "P_C18_malformed", "P_C18_invalid", "P_C18_alive"]


class ServerProp:
    def model(self, out, tier):
        # design level: invariants + liveness on 3 clients, 1 and 2 handler threads
        for w in (1, 2):
            res = common.run_tlc("MC_Server", spec="MCSpec",
                                 invariants=["MCTypeOK", "MCOwnAnswer", "MCServerStaysUp", "MCThreadsConserved"],
                                 properties=["MCEveryRequestAnswered", "MCTermination"],
                                 constants={"MCWorkers": str(w), "MCEmit": "FALSE", "MCClients": "3"},
                                 workers=4, timeout=600, cont=False)
            out.add_tlc("MC_Server(clients=3,threads=%d)" % w, res)
            if res.violations:
                raise ToolError("Server.tla violates its own properties: %s" % res.violations[0])
        # emission of all complete schedules of two clients (health/solve/health || malformed/solve)
        res = common.run_tlc("MC_Server", spec="MCSpec",
                             invariants=["MCOwnAnswer", "MCServerStaysUp", "MCEmitSchedule"],
                             constants={"MCWorkers": "2", "MCEmit": "TRUE", "MCClients": "2"},
                             workers=4, timeout=600, cont=False)
        out.add_tlc("MC_Server(emit,clients=2)", res)
        scheds = []
        for line in res.output.splitlines():
            if line.startswith('<<"CASE", '):
                scheds.append(json.loads(json.loads(line[len('<<"CASE", '):-2]))["sched"])
        return scheds

    def third_client(self, sched, k):
        """Interleave the invalid-body client (x1, v3, h3) into a two-client schedule at a
        position derived from k (the three-client history space is sampled, not enumerated)."""
        extra = [["send", "x1"], ["finish", "x1"], ["send", "v3"], ["finish", "v3"], ["send", "h3"], ["finish", "h3"]]
        out = list(sched)
        pos = k % (len(out) + 1)
        for i, e in enumerate(extra):
            pos = min(len(out), pos + (1 if i else 0) + ((k >> (i + 1)) % 2))
            out.insert(pos, e)
        return out

    def run(self, prop, tier, seed, only=None):
        out = Outcome()
        scheds = self.model(out, tier)
        if not scheds:
            raise ToolError("MC_Server emitted no schedule")
        import random
        rng = random.Random(seed)
        n = 36 if tier == "quick" else len(scheds)
        chosen = scheds if n >= len(scheds) else rng.sample(scheds, n)
        chosen = [self.third_client(s, k) if k % 2 == 0 else s for k, s in enumerate(chosen)]
        if tier != "quick":
            # 16-way concurrent bursts of valid requests mixed with faults
            for b in range(6):
                ids = ["v%d" % (10 + i) for i in range(12)] + ["x%d" % (10 + i) for i in range(2)] + \
                      ["m%d" % (10 + i) for i in range(2)]
                rng.shuffle(ids)
                chosen.append([["send", r] for r in ids] + [["finish", r] for r in ids])
        if only is not None:
            chosen = [only]
        exe = httpdrive.build_server()
        pool = [gen.gen_instance(seed + 900 + i, i, max_trips=8) for i in range(24)]

        def inst_of(k, r):
            if r == "v2":
                # sibling of v1: same ids / times / locations, different numbers only (a response cache or
                # any state keyed by the shape of the request would hand out the other one's solution)
                return httpdrive.numeric_sibling(inst_of(k, "v1"), k)
            base = pool[(k * 7 + sum(ord(ch) for ch in r)) % len(pool)]
            return httpdrive.rename_ids(base, "%s%d" % (("v1" if r == "v1" else r), k))

        results = []
        server = httpdrive.Server(exe)
        try:
            for k, sched in enumerate(chosen):
                if not server.alive():
                    server = httpdrive.Server(exe)
                instances = {s[1]: inst_of(k, s[1]) for s in sched if s[0] == "send" and s[1][0] in "vx"}
                httpdrive.run_schedule(server, sched, k, instances, results)
        finally:
            server.stop()
        trace = httpdrive.build_trace(results, inst_of)
        d = common.cache_dir("http_%d" % os.getpid())
        tp = os.path.join(d, "trace.ndjson")
        common.write_ndjson(tp, trace)
        viols = run_tlc_chunks("TraceServer", C18_INVS, [tp], "TraceServer", out)
        for ci, v in viols:
            ev = trace[v["l"] - 1]
            k = ev.get("sched", 0)
            sig = "%s:%s" % (v["name"], ev.get("kind", ev["ev"]))
            payload = {"property": prop, "kind": "http", "formula": v["name"], "signature": sig, "schedule": chosen[k],
                       "seed": seed, "event": {x: ev[x] for x in ev if x != "O"}}
            out.findings.append(Finding(prop, v["name"], "sched%d/%s" % (k, ev.get("r", "")), sig,
                                        "status=%s closed=%s body=%s" % (ev.get("status"), ev.get("closed"), ev.get("body", "")[:60]),
                                        payload))
        os.remove(tp)
        kinds = {}
        overlap = 0
        for k, sched, o, probe, alive in results:
            for r, rec in o.items():
                kk = rec["kind"] + (":closed" if rec["closed"] else ":%d" % rec["status"])
                kinds[kk] = kinds.get(kk, 0) + 1
            inflight = 0
            for s in sched:
                inflight += 1 if s[0] == "send" else -1
                overlap = max(overlap, inflight)
        out.traces += len(results)
        variants, large = {}, 0
        for k, sched, o, probe, alive in results:
            for r, rec in o.items():
                if "variant" in rec:
                    variants[str(rec["variant"])] = variants.get(str(rec["variant"]), 0) + 1
                if rec.get("large"):
                    large += 1
        out.coverage.update({"schedules_replayed": len(results), "schedules_emitted_by_model": len(scheds),
                             "exchanges": kinds, "max_requests_in_flight": overlap, "formulas": C18_INVS,
                             "invalid_body_variants_sent": variants, "large_valid_requests": large})
        if only is None and (len(variants) < 6 or large == 0):
            raise ToolError("vacuous C18 corpus: invalid-body variants sent %s, large valid requests %d" % (variants, large))
        need = ["health:200", "valid:200", "malformed:400", "invalid:closed"]
        missing = [x for x in need if not kinds.get(x)]
        if missing and only is None:
            raise ToolError("vacuous C18 corpus: no exchange of kind %s (seen %s)" % (missing, kinds))
        out.samples.append({"schedule": chosen[0]})
        out.assumptions = [
            "interleavings are controlled at request granularity (send order and overlap as in the schedules emitted by "
            "MC_Server; the invalid-body client and, in the thorough tier, 16-way bursts are interleaved by sampling)",
            "the real server binary is built from /repo's working tree and run as a separate process; valid requests carry "
            "instances with request-specific segment ids, so an answer to another request's instance cannot pass",
        ]
        return out

    def replay(self, prop, path):
        with open(path) as f:
            payload = json.load(f)
        return self.run(prop, "quick", payload.get("seed", 1), only=payload["schedule"])

    def selftest(self, prop, tier, seed):
        import selftest
        return selftest.server(prop, tier, seed)


REGISTRY["C18"] = ServerProp()


# =========================================================================== design-level model-checking legs
import hashlib  # noqa: E402
import mcinst  # noqa: E402


def spec_hash():
    h = hashlib.sha256()
    for f in sorted(os.listdir(common.SPEC)):
        if f.endswith(".tla"):
            with open(os.path.join(common.SPEC, f), "rb") as fh:
                h.update(f.encode())
                h.update(fh.read())
    return h.hexdigest()[:16]


def mc_cached(out, key, runner):
    """Run a design-level TLC model (independent of /repo) once per specification version."""
    d = os.path.join(common.WORK, "cache", "mc_" + spec_hash())
    os.makedirs(d, exist_ok=True)
    p = os.path.join(d, key + ".json")
    if os.path.exists(p):
        with open(p) as f:
            rec = json.load(f)
    else:
        res = runner()
        rec = {"distinct": res.distinct, "generated": res.generated, "wall": res.wall, "errors": res.errors,
               "violations": res.violations}
        if not res.errors:
            with open(p, "w") as f:
                json.dump(rec, f)
    if rec["errors"]:
        raise ToolError("TLC error in model %s: %s" % (key, rec["errors"][0][:1200]))
    if rec["violations"]:
        raise ToolError("the specification violates its own property in model %s: %s" % (key, rec["violations"][0]))
    out.states += rec["distinct"]
    out.transitions += rec["generated"]
    out.tlc_runs.append({"run": "MC:" + key, "distinct": rec["distinct"], "generated": rec["generated"],
                         "wall_s": round(rec["wall"], 2)})


def mc_pipeline(out, tier):
    mv = "1" if tier == "quick" else "2"
    mc_cached(out, "Pipeline_%s" % mv, lambda: common.run_tlc(
        "Pipeline", spec="Spec", invariants=["TypeOK", "ResultNotWorse", "DemandKept", "StepsBounded"],
        properties=["Termination", "Descent"], constants={"MaxVal": mv}, workers=4, timeout=3000, cont=False))


def mc_schedule(out, tier):
    ntrips, bounds = (2, ("2", "1", "3")) if tier == "quick" else (3, ("2", "1", "3"))
    d = os.path.join(common.WORK, "cache", "mc_" + spec_hash())
    os.makedirs(d, exist_ok=True)
    for variant in ((0,) if tier == "quick" else (0, 1)):
        ip = os.path.join(d, "mcinst_%d_%d.json" % (variant, ntrips))
        with open(ip, "w") as f:
            json.dump(gen.spec_view(mcinst.tiny(variant, ntrips)), f)
        mc_cached(out, "MC_Schedule_v%d_t%d_%s" % (variant, ntrips, "_".join(bounds)), lambda: common.run_tlc(
            "MC_Schedule", invariants=["AbsInv", "OutputFromInv", "OutputWhenAligned"],
            constants={"MaxReal": bounds[0], "MaxDummy": bounds[1], "MaxId": bounds[2], "Det": "FALSE"},
            extra_env={"INSTANCE": ip}, workers=max(4, common.NCPU - 2), timeout=6000, cont=False, xmx="12g"))


def mc_swaps(out, tier):
    """MC_Swaps: any sequence of applicable swaps (Swaps.tla) from the one-vehicle-per-trip schedule of the tiny instance:
    structural invariant, no service trip forgotten, fresh ids."""
    d = os.path.join(common.WORK, "cache", "mc_" + spec_hash())
    os.makedirs(d, exist_ok=True)
    configs = [(0, "FALSE", "3"), (0, "TRUE", "2")] if tier == "quick" else [(0, "FALSE", "4"), (1, "FALSE", "4"), (0, "TRUE", "3")]
    for variant, nondet, steps in configs:
        ip = os.path.join(d, "mcswaps_%d.json" % variant)
        with open(ip, "w") as f:
            json.dump(gen.spec_view(mcinst.tiny(variant, 3)), f)
        mc_cached(out, "MC_Swaps_v%d_%s_%s" % (variant, nondet, steps), lambda: common.run_tlc(
            "MC_Swaps", spec="Spec", invariants=["StructOK", "NoTripForgotten", "IdsFresh"], constraint="Bounded",
            constants={"MaxReal": "4", "MaxDummy": "2", "MaxSteps": steps, "DepotNondet": nondet},
            extra_env={"INSTANCE": ip}, workers=max(4, common.NCPU - 2), timeout=6000, cont=False, xmx="12g"))


def mc_pipeline_ind(out, tier):
    """PipelineInd.tla with Apalache: inductive invariant over an unbounded objective domain (C08, design level)."""
    import shutil
    import subprocess
    d = os.path.join(common.WORK, "cache", "mc_" + spec_hash())
    os.makedirs(d, exist_ok=True)
    p = os.path.join(d, "PipelineInd_apalache.json")
    if os.path.exists(p):
        with open(p) as f:
            rec = json.load(f)
    else:
        exe = shutil.which("apalache-mc")
        if exe is None:
            out.tlc_runs.append({"run": "Apalache:PipelineInd skipped (apalache-mc not on PATH)", "distinct": 0, "generated": 0, "wall_s": 0})
            return
        runs = [("base", ["--init=Init", "--inv=IndInv", "--length=0"]),
                ("step", ["--init=IndInit", "--inv=IndInv", "--length=1"]),
                ("implies", ["--init=IndInit", "--inv=ResultNotWorse", "--length=0"])]
        rec = {"runs": []}
        t0 = time.time()
        for name, args in runs:
            od = os.path.join(common.WORK, "apalache_%d_%s" % (os.getpid(), name))
            try:
                r = subprocess.run([exe, "check", "--out-dir=" + od] + args + [os.path.join(common.VERIF, "spec", "PipelineInd.tla")],
                                   stdout=subprocess.PIPE, stderr=subprocess.STDOUT, text=True, timeout=1200, cwd=common.WORK)
                text = r.stdout
            except (subprocess.TimeoutExpired, OSError) as e:
                text = "not run: %r" % (e,)
            shutil.rmtree(od, ignore_errors=True)
            ok = "EXITCODE: OK" in text
            rec["runs"].append({"name": name, "ok": ok, "tail": text[-300:]})
        rec["wall"] = time.time() - t0
        if all(x["ok"] for x in rec["runs"]):
            with open(p, "w") as f:
                json.dump(rec, f)
    bad = [x for x in rec["runs"] if not x["ok"]]
    if bad:
        # supplementary design-level result (depends on the specification only, never on /repo): reported, not fatal
        out.tlc_runs.append({"run": "Apalache:PipelineInd NOT ESTABLISHED (%s): %s" % (bad[0]["name"], bad[0]["tail"][-120:]),
                             "distinct": 0, "generated": 0, "wall_s": 0})
        return
    out.tlc_runs.append({"run": "Apalache:PipelineInd(IndInv inductive, unbounded objective domain)", "distinct": 0,
                         "generated": 0, "wall_s": round(rec["wall"], 2)})


def tlaps_lexorder(out, tier):
    """LexOrder.tla with TLAPS: the lexicographic order of C08 / C15 is a strict order (any vector length, unbounded)."""
    import shutil
    import subprocess
    d = os.path.join(common.WORK, "cache", "mc_" + spec_hash())
    os.makedirs(d, exist_ok=True)
    p = os.path.join(d, "LexOrder_tlaps.json")
    if os.path.exists(p):
        with open(p) as f:
            rec = json.load(f)
    else:
        exe = shutil.which("tlapm")
        if exe is None:
            out.tlc_runs.append({"run": "TLAPS:LexOrder skipped (tlapm not on PATH)", "distinct": 0, "generated": 0, "wall_s": 0})
            return
        wd = os.path.join(common.WORK, "tlaps_%d" % os.getpid())
        os.makedirs(wd, exist_ok=True)
        shutil.copy(os.path.join(common.VERIF, "spec", "LexOrder.tla"), wd)
        t0 = time.time()
        try:
            r = subprocess.run([exe, "--threads", "8", "LexOrder.tla"], stdout=subprocess.PIPE, stderr=subprocess.STDOUT,
                               text=True, timeout=1800, cwd=wd)
            text = r.stdout
        except (subprocess.TimeoutExpired, OSError) as e:
            text = "not run: %r" % (e,)
        shutil.rmtree(wd, ignore_errors=True)
        import re
        m = re.search(r"All (\d+) obligations proved", text)
        rec = {"ok": bool(m), "obligations": int(m.group(1)) if m else 0, "wall": time.time() - t0, "tail": text[-400:]}
        if rec["ok"]:
            with open(p, "w") as f:
                json.dump(rec, f)
    if not rec["ok"]:
        # supplementary (depends on the specification only): reported, not fatal
        out.tlc_runs.append({"run": "TLAPS:LexOrder NOT PROVED: " + rec["tail"][-120:], "distinct": 0, "generated": 0, "wall_s": 0})
        return
    out.tlc_runs.append({"run": "TLAPS:LexOrder(%d obligations: irreflexive, asymmetric, transitive)" % rec["obligations"],
                         "distinct": 0, "generated": 0, "wall_s": round(rec["wall"], 2)})


def mc_circulation(out, tier):
    d = os.path.join(common.WORK, "cache", "mc_" + spec_hash())
    os.makedirs(d, exist_ok=True)
    for variant in ((0,) if tier == "quick" else (0, 1)):
        ip = os.path.join(d, "mccirc_%d.json" % variant)
        with open(ip, "w") as f:
            json.dump(gen.spec_view(mcinst.tiny(variant, 2)), f)
        mc_cached(out, "MC_Circulation_v%d" % variant, lambda: common.run_tlc(
            "MC_Circulation", invariants=["CriterionExact", "NonVacuous"], constants={"MaxVeh": "3"},
            extra_env={"INSTANCE": ip}, workers=8, timeout=3000, cont=False))


def mc_tourcache(out, tier):
    """TourCache.tla!CacheLaws (with the insert/remove laws) on all tiny networks of a small bound."""
    from check import Outcome as _O
    bnd = {"MinActs": "1", "MaxActs": "2", "MaxMnt": "1", "Starts": "{0,1}", "Durs": "{1,2}"}
    tmp = _O()
    tours_mod.run_gen(tier, tmp, bnd=bnd)      # cached per specification version; Laws is an invariant of every run
    out.states += tmp.states
    out.transitions += tmp.transitions
    out.tlc_runs.append({"run": "MC:Gen_Tour!Laws(CacheLaws)", "distinct": tmp.states, "generated": tmp.transitions,
                         "wall_s": sum(r.get("wall_s", 0) for r in tmp.tlc_runs)})


MC_LEGS = {
    "C14": [mc_circulation], "C09": [mc_schedule, mc_tourcache], "C04": [mc_tourcache],
    "C01": [mc_schedule], "C02": [mc_schedule], "C03": [mc_schedule], "C05": [mc_schedule],
    "C10": [mc_schedule], "C13": [mc_schedule], "C11": [mc_swaps],
    "C06": [mc_pipeline], "C07": [mc_pipeline], "C08": [mc_pipeline, mc_pipeline_ind, tlaps_lexorder], "C16": [mc_pipeline],
}


def with_mc(entry, prop_ids):
    """Wrap an entry's run so that the property's design-level model is checked as well."""
    orig = entry.run

    def run(prop, tier, seed):
        out = orig(prop, tier, seed)
        for leg in MC_LEGS.get(prop, []):
            leg(out, tier)
        return out

    entry.run = run


for _e in set(REGISTRY.values()):
    with_mc(_e, None)


# =========================================================================== hook H3 traces
import calltrace  # noqa: E402

CALL_INVS = WALK_INVS["C09"] + WALK_INVS["C10"] + ["P_C13_nopanic", "P_C13_refusal", "P_C13_enabled", "P_C13_effect",
                                                    "P_C13_cycles"]


def validate_calls(prop, invs, name, view, calls, out, label, payload_extra=None, groups=None):
    """TraceSched over self-contained (pre, call, post) events recorded by hook H3."""
    groups = groups if groups is not None else [(name, view, calls)]
    calls = [c for g in groups for c in g[2]]
    if not calls:
        return 0
    d = common.cache_dir("calls_%d" % os.getpid())
    traces = calltrace.to_trace_multi(groups)
    chunks = []
    for k, t in enumerate(traces):
        p = os.path.join(d, "%s_%d.ndjson" % (label, k))
        common.write_ndjson(p, t)
        chunks.append(p)
    viols = run_tlc_chunks("TraceSched", invs, chunks, "TraceSched/%s" % label, out, workers=2)
    for ci, v in viols:
        ev = traces[ci][v["l"] - 1]
        sig = "%s:%s:%s" % (v["name"], ev.get("op", ev["ev"]), label)
        payload = {"property": prop, "kind": "call", "formula": v["name"], "signature": sig, "source": label,
                   "call": {k: ev.get(k) for k in ("op", "args", "ok", "msg", "ret")},
                   "pre": traces[ci][ev["pi"] - 1]["S"] if ev.get("pi") else None}
        if payload_extra:
            payload.update(payload_extra)
        out.findings.append(Finding(prop, v["name"], "%s@%d" % (ev.get("name", name), v["l"]), sig,
                                    "op=%s args=%s" % (ev.get("op"), json.dumps(ev.get("args"))), payload))
    for p in chunks:
        os.remove(p)
    return len(calls)


def repo_tests_leg(prop, out):
    """The repository's own solution tests, run with the hooks on: every modification call they make
    is validated against the specification (all invariants in every state, not one assertion per test)."""
    d = common.cache_dir("repo_tests")
    cp = os.path.join(d, "calls.json")
    if os.path.exists(cp):
        with open(cp) as f:
            rec = json.load(f)
    else:
        calls, passed, failed = calltrace.repo_tests_calls()
        rec = {"calls": calls, "passed": passed, "failed": failed}
        with open(cp, "w") as f:
            json.dump(rec, f)
    I, view = calltrace.repo_test_instance()
    digest = calltrace.repo_test_digest()
    mine = [c for c in rec["calls"] if c.get("net") == digest]
    if not digest or not mine:
        raise ToolError("no recorded call of the repository's tests ran on solution/resources/test_instance.json "
                        "(fingerprint %r, %d calls recorded)" % (digest, len(rec["calls"])))
    invs = [x for x in (WALK_INVS.get(prop) or CALL_INVS) if x != "P_C13_input"]
    n = validate_calls(prop, invs, "repo_tests", view, mine, out, "repo_tests")
    out.coverage["repo_tests_with_hooks"] = {"tests_passed": rec["passed"], "tests_failed": rec["failed"],
                                             "modification_calls_validated": n,
                                             "calls_on_other_instances_not_judged": len(rec["calls"]) - len(mine)}
    out.traces += rec["passed"]


def _wrap_walk_with_repo_tests():
    for pid in ("C09", "C10", "C13"):
        entry = REGISTRY[pid]
        orig = entry.run

        def run(prop, tier, seed, _orig=orig):
            out = _orig(prop, tier, seed)
            repo_tests_leg(prop, out)
            return out

        entry.run = run


_wrap_walk_with_repo_tests()


def _wrap_c11_inner():
    entry = REGISTRY["C11"]
    orig = entry.run

    def run(prop, tier, seed):
        out = orig(prop, tier, seed)
        info = entry.corpus(tier, seed)
        insts = {}
        total = 0
        by_name = {}
        for c in info["chunks"]:
            ip = os.path.join(os.path.dirname(c), "inner_" + os.path.basename(c).split("_")[1].split(".")[0] + ".json")
            if os.path.exists(ip):
                with open(ip) as f:
                    by_name.update(json.load(f))
        names = [n for n, calls in by_name.items() if calls]
        all_insts = {n: entry.instance_of(info, n) for n in names}
        caps = walks.observed_caps(list(all_insts.values())) if names else {}
        groups = [(n, walks.walk_view(all_insts[n], caps), by_name[n]) for n in names]
        total = validate_calls(prop, CALL_INVS, "swaps", None, None, out, "swap_inner", groups=groups)
        out.coverage["inner_swap_calls_validated"] = total
        return out

    entry.run = run


_wrap_c11_inner()


# =========================================================================== specification -> implementation (schedule)
import schedreplay  # noqa: E402

REPLAY_INVS = ["P_C13_replay_ok", "P_C13_replay_state", "P_C13_replay_inv"]


def schedule_replay_leg(prop, out, tier):
    settings = [(0, 2, ("2", "1", "3"))] if tier == "quick" else [(0, 2, ("2", "1", "4")), (1, 3, ("2", "1", "3"))]
    total = 0
    for variant, ntrips, bounds in settings:
        cdir = os.path.join(common.WORK, "cache", "mc_" + spec_hash())
        os.makedirs(cdir, exist_ok=True)
        cp = os.path.join(cdir, "schedreplay_v%d_t%d_%s.json" % (variant, ntrips, "_".join(bounds)))
        if os.path.exists(cp):
            with open(cp) as f:
                rec = json.load(f)
            cases = rec["cases"]
            out.states += rec["distinct"]
            out.transitions += rec["generated"]
            out.tlc_runs.append({"run": "MC:MC_Schedule(Det,cached)", "distinct": rec["distinct"],
                                 "generated": rec["generated"], "wall_s": rec["wall"]})
            I = mcinst.tiny(variant, ntrips)
        else:
            s0, g0 = out.states, out.transitions
            import time as _t
            t0 = _t.time()
            I, cases = schedreplay.run_model(out, variant, ntrips, bounds)
            with open(cp, "w") as f:
                json.dump({"cases": cases, "distinct": out.states - s0, "generated": out.transitions - g0,
                           "wall": round(_t.time() - t0, 1)}, f)
        by_case = schedreplay.execute(I, cases)
        d = common.cache_dir("schedreplay_%d" % os.getpid())
        chunks, index = schedreplay.build_traces(I, cases, by_case, d)
        viols = run_tlc_chunks("TraceSched", REPLAY_INVS, chunks, "TraceSched/replay", out, max_parallel=12, workers=1)
        traces = {}
        for ci, v in viols:
            if ci not in traces:
                traces[ci] = common.read_ndjson(chunks[ci])
            ev = traces[ci][v["l"] - 1]
            k = [x for x in index[ci] if x[0] == v["l"]][0][1]
            sig = "%s:%s" % (v["name"], cases[k]["hist"][-1]["op"] if cases[k]["hist"] else "empty")
            payload = {"property": prop, "kind": "schedreplay", "formula": v["name"], "signature": sig,
                       "variant": variant, "ntrips": ntrips, "history": cases[k]["hist"], "expected": cases[k]["A"],
                       "msg": ev.get("msg")}
            out.findings.append(Finding(prop, v["name"], "model_state_%d" % k, sig,
                                        "history=%s" % json.dumps(cases[k]["hist"])[:300], payload))
        for p in chunks:
            os.remove(p)
        total += len(cases)
    out.coverage["model_states_replayed_on_implementation"] = total
    out.traces += total


def _wrap_c13_replay():
    entry = REGISTRY["C13"]
    orig = entry.run
    orig_replay = entry.replay

    def run(prop, tier, seed):
        out = orig(prop, tier, seed)
        schedule_replay_leg(prop, out, tier)
        return out

    def replay(prop, path):
        with open(path) as f:
            payload = json.load(f)
        if payload.get("kind") != "schedreplay":
            return orig_replay(prop, path)
        out = Outcome()
        I = mcinst.tiny(payload["variant"], payload["ntrips"])
        cases = [{"hist": payload["history"], "A": payload["expected"], "cyc": []}]
        by_case = schedreplay.execute(I, cases)
        d = common.cache_dir("schedreplay_%d" % os.getpid())
        chunks, index = schedreplay.build_traces(I, cases, by_case, d)
        viols = run_tlc_chunks("TraceSched", ["P_C13_replay_ok", "P_C13_replay_inv"], chunks, "TraceSched/replay", out, workers=1)
        for ci, v in viols:
            out.findings.append(Finding(prop, v["name"], "model_state", payload["signature"], "", payload))
        return out

    entry.run = run
    entry.replay = replay


_wrap_c13_replay()
