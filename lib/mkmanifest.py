"""Writes MANIFEST.json from the table below (single source of truth for the interface)."""
import json
import os

VERIF = os.path.dirname(os.path.dirname(os.path.abspath(__file__)))

TRUST = ("trusted: rustc/cargo, TLC 1.8 and its Json module, lib/gen.py renderer (abstract instance -> README JSON), "
         "ISO time parser, solution::verif::project (public getters -> JSON); valid instances = those lib/gen.py produces")

CHECKS = {
    "C01": ("TLA+ reference network (Net.tla) + Output.tla!OutFeasible evaluated by TLC on every answer of the real "
            "solve pipeline (trace validation, TracePipe.tla)",
            "6-C01"),
    "C02": ("Output.tla!OutLimits (formation / track / depot limits from the abstract instance) evaluated by TLC on "
            "every recorded answer; corpus forced to contain binding limits of every placement", "6-C02"),
    "C03": ("Output.tla!OutComplete, ViewsAgree, DepotLoadsOK, DeadHeadsOK evaluated by TLC on every recorded answer", "6-C03"),
    "C04": ("Output.tla!ObjTrue: the four objective components recomputed in TLA+ from the answer and the instance "
            "alone, compared by TLC with the reported objectiveValue", "6-C04"),
    "C05": ("Output.tla!CyclesOK (partition, end depot = successor's start depot, depot balance) evaluated by TLC on "
            "every recorded answer; corpus must contain multi-cycle rotations", "6-C05"),
    "C06": ("every generated valid instance is solved in a child process in the release and the overflow-checked "
            "profile under a watchdog; TLC accepts a trace only if it ends with status ok (no action for panic/timeout)", "6-C06"),
    "C07": ("Output.tla!CoverageOK + lower bound recomputed in TLA+; unserved demand monotone over stage snapshots", "6-C07"),
    "C08": ("hook H1 records every schedule the real ParallelLocalSearchSolver accepts; TracePipe.tla!P_C08_descent requires a "
            "strict lexicographic decrease of the objective RECOMPUTED by the specification (unserved, violation, vehicles, costs); "
            "P_C08_result: result = last accepted step and <=lex start; P_C08_fix: the real solver re-run on its own result accepts "
            "nothing and returns the same schedule; design level: Pipeline.tla (TLC, bounded objective domain), PipelineInd.tla "
            "(Apalache: inductive invariant over an unbounded domain), LexOrder.tla (TLAPS: the order is a strict order)", "6-C08"),
    "C09": ("SchedView.tla!CachesOK (every cached figure of tours, schedule, transitions, depots against the from-scratch "
            "TLA+ definitions) evaluated by TLC on every state of adaptive random walks over all 12 public modifications, "
            "on every pipeline stage snapshot, on the repository's own tests (hook H3) and (tour level) on the exhaustive Gen_Tour "
            "cases; TourCache.tla!CacheLaws: the documented delta formulas keep exact caches exact on all tiny networks", "6-C09"),
    "C10": ("SchedView.tla!SchedInv (tours, formations, limits, sorted listings, cycle partition + successor probe) evaluated "
            "by TLC on every state of the walks, every pipeline stage snapshot and the repository's own tests (hook H3); MC_Schedule!AbsInv "
            "on the specification's own state machine", "6-C10"),
    "C11": ("rsv ls --mode cand enumerates RSSchedParallelNeighborhood::neighbors_of on random (not only improving) walks; TLC "
            "evaluates SchedView.tla!SchedInv and CachesOK on every projected candidate; enumeration must not panic and the base "
            "projection digest must be unchanged; Swaps.tla models the four swaps as compositions of the Schedule.tla actions "
            "(fit_reassign as a function) and the enumeration of tried swaps: TraceSwap.tla requires every candidate to equal what "
            "its swap yields on the base schedule (up to improve_depots' depot choice) and the set of candidates to be exactly the "
            "set of applicable model swaps", "6-C11"),
    "C12": ("Gen_Tour.tla: TLC enumerates ALL tiny networks (<=2 quick / <=3 thorough activities, ties, zero shunting, forbidden "
            "and asymmetric dead-heads), checks the laws of the reference insert/remove semantics and emits every valid tour, "
            "path and segment; rsv tour executes them on the real Tour code; TraceTour.tla validates every result", "6-C12"),
    "C13": ("Schedule.tla: reference semantics Pre_X / Res_X of each public modification (whole next abstract state, hence frame "
            "conditions; relational for heuristics); TraceSched.tla checks every observed (pre, call, post) triple of the walks, "
            "refusals, returned ids, untouched input value; fit_reassign additionally against the greedy function Swaps.tla!FitRes "
            "(exact result, exact refusal); the same formulas on every modification call of the repository's own 51 "
            "tests (hook H3); MC_Schedule (Det) emits ~20 k model states with histories which are replayed on the real Schedule and "
            "must yield exactly the model state (spec -> implementation)", "6-C13"),
    "C14": ("Circulation.tla: the per-type covering circulation network is built from the abstract instance alone (arcs wherever "
            "the reference CanReach holds; lexicographic pair costs (vehicles, operating cost)); the flow induced by the tours of "
            "MinCostFlowSolver::solve (hook snapshot mcf) must be feasible (coverage bounds, allotted tracks, per-type depot "
            "capacities, balance) and optimal: TLC evaluates Bellman-Ford on the residual network and requires no negative cycle", "6-C14"),
    "C15": ("Transition.tla: the rotation bookkeeping WITH its caches as variables and the documented delta formulas; TLC checks "
            "TransInv (partition, lookup, empty-cycle stack, every counter and total = recomputation) for all operation sequences "
            "up to the bound (MC_Transition) and emits every explored state with a history; rsv trans replays them on the real "
            "Transition; TraceTrans.tla requires the observed state to satisfy TransInv and to equal the model's prediction; "
            "every history is replayed call by call and as one batch (stale tours + updated map, as the schedule uses the API); "
            "P_C15_opt on the pipeline and P_C15_topt on every 4th state of the schedule walks (real optimiser on the carried and on "
            "the recomputed cycles, time-limited): optimisation keeps the vehicles and never worsens (violation, counter)", "6-C15"),
    "C16": ("stage snapshots (cfg hooks) related by TracePipe.tla!P_C16_*: start=improve(mcf), transopt keeps ls tours, "
            "final carries transopt's cycles and ls's activities (successors read off the cycles), answer = projection of final; "
            "hook H4 records the cycles the optimiser returned per type and P_C16_chosen requires the transopt snapshot to carry "
            "exactly those", "6-C16"),
    "C17": ("Net.tla!NetObsOK: every public Network getter (nodes, limits, depots, can_reach matrix, successors / "
            "predecessors, dead-heads) compared by TLC with the reference network derived from the abstract instance", "6-C17"),
    "C18": ("Server.tla: request/response machine (clients, bounded handler threads, own-answer function Expected, no action "
            "that stops the server); TLC checks OwnAnswer, ServerStaysUp, ThreadsConserved and the liveness property "
            "EveryRequestAnswered (health answered although all threads are busy) and emits all complete schedules; lib/httpdrive.py "
            "replays them with real concurrency against the real server binary; TraceServer.tla requires every exchange to be the "
            "Expected completion of its OWN request (valid: Output.tla predicates w.r.t. the request's own instance)", "6-C18"),
}

NOT_YET = {
}


def main():
    checks = []
    for pid, (text, ref) in sorted(CHECKS.items()):
        checks.append({
            "property_id": pid,
            "quick_cmd": "./bin/check %s --tier quick" % pid,
            "thorough_cmd": "./bin/check %s --tier thorough" % pid,
            "evidence_file": "evidence/%s.json" % pid,
            "replay_cmd_template": "./bin/check %s --replay {path}" % pid,
            "engine": "tlc-trace-validation",
            "level_claimed": {
                "category": "model_checking",
                "text": text + ". Assurance: the TLA+ formulas are checked by TLC on every state observed from the "
                        "implementation for the explored corpus (and on the specification's own state machine where a "
                        "MC_* model exists); no claim for inputs outside the explored corpus.",
                "design_ref": "DESIGN.md section " + ref,
            },
            "level_note": TRUST,
            "technique": "explicit TLA+ specification checked with TLC + trace validation of the implementation against it",
        })
    manifest = {
        "version": 1,
        "setup_cmd": "./bin/setup",
        "hooks": {
            "guard": "rssched_verif",
            "enable": "harness/.cargo/config.toml passes --cfg rssched_verif (rustflags) when building /repo's crates as path dependencies",
            "baseline_off_cmd": "cd /repo && cargo test --workspace --no-fail-fast --offline",
            "source_commits": ["db14fc4", "67fec9f", "4a8af0d", "e66a0ca", "e168476", "bcaacf0", "a1e24f2"],
            "add_only": True,
        },
        "engines": [
            {"name": "tlc-trace-validation", "path": "spec/", "serves_properties": sorted(CHECKS.keys()),
             "kind_free_text": "TLA+ specification (spec/*.tla) checked by TLC; lib/*.py drives; harness/ (Rust) replays and records"},
        ],
        "checks": checks,
        "not_applicable": [{"property_id": k, "reason": v} for k, v in sorted(NOT_YET.items()) if k not in CHECKS],
        "notes": "bin/check exits 0/1/2 (held / VIOLATION / tool error). Known findings: known_findings.jsonl.",
    }
    with open(os.path.join(VERIF, "MANIFEST.json"), "w") as f:
        json.dump(manifest, f, indent=1)


if __name__ == "__main__":
    main()
