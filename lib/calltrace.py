"""Hook H3 traces: self-contained (pre, call, post) events of public schedule modifications, recorded
inside the implementation (the repository's own tests, the inner steps of local-search swaps), turned
into TraceSched traces."""
import json
import os
import subprocess

import common
import gen
import walks


def to_trace(view, calls, name, max_events=3000):
    return to_trace_multi([(name, view, calls)], max_events)


def to_trace_multi(groups, max_events=3000):
    """groups: list of (name, instance view, call events). Returns a list of traces."""
    traces = []
    trace = []
    for name, view, calls in groups:
        if not calls:
            continue
        trace.append({"ev": "load", "name": name, "I": view})
        li = len(trace)
        for c in calls:
            if len(trace) + 2 > max_events:
                traces.append(trace)
                trace = [{"ev": "load", "name": name, "I": view}]
                li = 1
            trace.append({"ev": "init", "li": li, "name": name, "S": c["pre"]})
            pi = len(trace)
            o = {"ev": "op", "li": li, "pi": pi, "name": name, "op": c["op"], "args": c["args"], "ok": c["ok"],
                 "panic": False, "hb": "", "ha": "", "ret": c.get("ret", {}), "msg": c.get("msg", "")[:160]}
            if c["ok"]:
                o["S"] = c["post"]
            trace.append(o)
    if len(trace) > 1:
        traces.append(trace)
    for t in traces:
        for e in t:
            common.check_ints(e)
    return traces


def repo_tests_calls():
    """Run the repository's own solution tests with the hooks on and RSSCHED_VERIF_TRACE set."""
    target = os.path.join(common.WORK, "target_repo_tests")
    out = os.path.join(common.WORK, "repo_tests_calls_%d.ndjson" % os.getpid())
    if os.path.exists(out):
        os.remove(out)
    env = dict(os.environ, CARGO_TARGET_DIR=target, CARGO_NET_OFFLINE="true", RSSCHED_VERIF_TRACE=out,
               RUSTFLAGS="--cfg rssched_verif --check-cfg cfg(rssched_verif)")
    r = subprocess.run(["cargo", "test", "--offline", "-p", "solution", "--lib", "--", "--test-threads", "4"],
                       cwd=common.REPO, env=env, stdout=subprocess.PIPE, stderr=subprocess.STDOUT, text=True)
    passed = failed = 0
    for line in r.stdout.splitlines():
        if line.startswith("test result:"):
            parts = line.split()
            passed += int(parts[3])
            failed += int(parts[5])
    calls = [e for e in common.read_ndjson(out) if e.get("ev") == "call"]
    if os.path.exists(out):
        os.remove(out)
    if passed == 0:
        raise common.ToolError("running the repository's tests with hooks failed:\n" + r.stdout[-2000:])
    return calls, passed, failed


def repo_test_instance():
    with open(os.path.join(common.REPO, "solution", "resources", "test_instance.json")) as f:
        inp = json.load(f)
    I = gen.from_input(inp, "repo_test_instance")
    caps = walks.observed_caps([I])
    return I, walks.walk_view(I, caps)


def repo_test_digest():
    """Fingerprint of the network that solution/resources/test_instance.json loads to (hook H3b records the
    fingerprint of the network of every call: tests that build another instance are not judged against this one)."""
    I, _ = repo_test_instance()
    return walks.DIGESTS.get(I["name"], "")
