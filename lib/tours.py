"""C12 corpus: TLC (Gen_Tour.tla) enumerates all tiny networks with their valid tours and paths and
checks the design-level laws; `rsv tour` executes the emitted cases on the real Tour code; the
results become TraceTour traces."""
import json
import os
import time
from concurrent.futures import ThreadPoolExecutor

import common
import gen

CONFIGS = [(m, d, f, a, 600) for m in (0, 600) for d in (0, 600) for f in (False, True) for a in (False, True)
           if not (f and a)]
# dead-head connections that are faster than the minimal shunting at one location
CONFIGS += [(600, 0, False, False, 60), (600, 0, False, True, 60), (0, 0, False, False, 60)]


def bounds(tier):
    if tier == "quick":
        return {"MinActs": "1", "MaxActs": "2", "MaxMnt": "1", "Starts": "{0,1,2}", "Durs": "{1,2}"}
    return {"MinActs": "1", "MaxActs": "2", "MaxMnt": "1", "Starts": "{0,1,2,3}", "Durs": "{1,2}"}


def bounds3(tier):
    """Second, coarser family for the quick tier: all networks with exactly three service trips of unit
    duration (tours and dummy tours of three nodes: gaps next to the first / last node)."""
    if tier == "quick":
        return {"MinActs": "3", "MaxActs": "3", "MaxMnt": "0", "Starts": "{0,1,2}", "Durs": "{1}"}
    return {"MinActs": "3", "MaxActs": "3", "MaxMnt": "1", "Starts": "{0,1,2}", "Durs": "{1,2}"}


def spec_hash():
    import hashlib
    h = hashlib.sha256()
    for f in sorted(os.listdir(common.SPEC)):
        if f.endswith(".tla"):
            with open(os.path.join(common.SPEC, f), "rb") as fh:
                h.update(f.encode())
                h.update(fh.read())
    h.update(json.dumps(CONFIGS).encode())
    return h.hexdigest()[:16]


CONFIGS3 = [(0, 0, False, False, 600), (0, 600, False, False, 600), (600, 0, False, True, 600),
            (0, 0, True, False, 600), (600, 0, False, False, 60), (600, 600, False, False, 600)]


def run_gen(tier, out, emit=True, bnd=None, configs=None):
    """One TLC run per configuration, in parallel. Returns the emitted cases. The enumeration does
    not depend on /repo, so it is cached per specification version."""
    bnd = dict(bnd or bounds(tier))
    bnd.setdefault("MinActs", "1")
    cdir = os.path.join(common.WORK, "cache", "mc_" + spec_hash())
    os.makedirs(cdir, exist_ok=True)
    key = ("gen3_" if configs else "gen_") + "_".join("%s%s" % (k, "".join(ch for ch in str(v) if ch.isalnum())) for k, v in sorted(bnd.items()))
    cpath = os.path.join(cdir, key + ".json")
    if emit and os.path.exists(cpath):
        with open(cpath) as f:
            rec = json.load(f)
        out.states += rec["distinct"]
        out.transitions += rec["generated"]
        out.tlc_runs.append({"run": "MC:Gen_Tour(cached)", "distinct": rec["distinct"], "generated": rec["generated"],
                             "wall_s": rec["wall"]})
        return rec["cases"]
    s0, g0, t0 = out.states, out.transitions, time.time()
    cases = _run_gen(out, emit, bnd, configs or CONFIGS)
    if emit:
        with open(cpath, "w") as f:
            json.dump({"cases": cases, "distinct": out.states - s0, "generated": out.transitions - g0,
                       "wall": round(time.time() - t0, 1)}, f)
    return cases


def _run_gen(out, emit, bnd, configs):

    def one(cfg):
        consts = dict(bnd)
        consts.update({"Emit": "TRUE" if emit else "FALSE", "CfgShMin": str(cfg[0]), "CfgShDh": str(cfg[1]),
                       "CfgForbid": "TRUE" if cfg[2] else "FALSE", "CfgAsym": "TRUE" if cfg[3] else "FALSE",
                       "CfgDh": str(cfg[4])})
        return cfg, common.run_tlc("Gen_Tour", invariants=["Laws", "EmitCase"], constants=consts, workers=1,
                                   timeout=3000, cont=False, xmx="3g")

    with ThreadPoolExecutor(max_workers=min(len(configs), max(2, common.NCPU - 2))) as ex:
        results = list(ex.map(one, configs))
    cases = []
    for cfg, res in results:
        out.add_tlc("Gen_Tour%s" % (cfg,), res)
        if res.violations:
            raise common.ToolError("design-level law violated in Gen_Tour %s: %s" % (cfg, res.violations[0]))
        n = 0
        for line in res.output.splitlines():
            if line.startswith('<<"CASE", '):
                inner = json.loads(line[len('<<"CASE", '):-2])
                cases.append(json.loads(inner))
                n += 1
        if emit and n != res.distinct:
            raise common.ToolError("Gen_Tour %s emitted %d cases for %d networks" % (cfg, n, res.distinct))
    return cases


def execute(cases, stride=1, shards=None, rstride=1):
    """Run the cases on the implementation; returns per-case event lists (same order)."""
    shards = shards or max(1, min(common.NCPU - 2, (len(cases) + 49) // 50))
    workdir = os.path.join(common.WORK, "tour_%d" % os.getpid())
    os.makedirs(workdir, exist_ok=True)
    items = []
    for k, c in enumerate(cases):
        I = gen.complete_view(c["I"], name="n%d" % k)
        c["_I"] = I
        items.append({"name": I["name"], "input": gen.render(I), "tours": c["tours"], "dummies": c["dummies"],
                      "paths": c["paths"]})
    parts = [items[i::shards] for i in range(shards)]
    common.build_harness("release")

    def one(k):
        inp = os.path.join(workdir, "in_%d.ndjson" % k)
        outp = os.path.join(workdir, "out_%d.ndjson" % k)
        common.write_ndjson(inp, parts[k])
        rc, err = common.run_harness("tour", ["--in", inp, "--out", outp, "--stride", str(stride), "--rstride", str(rstride)], timeout=3000,
                                     threads=1)
        evs = common.read_ndjson(outp)
        for p in (inp, outp):
            if os.path.exists(p):
                os.remove(p)
        if rc != 0:
            raise common.ToolError("rsv tour failed rc=%s %s" % (rc, err[-500:]))
        return evs

    with ThreadPoolExecutor(max_workers=shards) as ex:
        outs = list(ex.map(one, range(shards)))
    os.rmdir(workdir)
    by_name = {}
    for evs in outs:
        for e in evs:
            by_name.setdefault(e["name"], []).append(e)
    return by_name


def build_traces(cases, by_name, d, max_events=12000):
    """Chunked TraceTour traces; returns (chunk paths, index: per chunk list of (first,last,case_no))."""
    chunks, index = [], []
    trace, idx = [], []

    def flush():
        nonlocal trace, idx
        if trace:
            p = os.path.join(d, "trace_%d.ndjson" % len(chunks))
            common.write_ndjson(p, trace)
            chunks.append(p)
            index.append(idx)
            trace, idx = [], []

    for k, c in enumerate(cases):
        I = c["_I"]
        evs = by_name.get(I["name"], [])
        if len(trace) + len(evs) + 1 > max_events:
            flush()
        trace.append({"ev": "load", "name": I["name"], "I": gen.spec_view(I)})
        li = len(trace)
        first = li
        for e in evs:
            e = dict(e)
            e["li"] = li
            common.check_ints(e)
            trace.append(e)
        idx.append((first, len(trace), k))
    flush()
    return chunks, index
