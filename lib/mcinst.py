"""Tiny fixed instances for the design-level models (MC_Schedule)."""
import gen


def tiny(variant=0, ntrips=3):
    locs = ["LA", "LB"]
    I = {
        "name": "mc%d" % variant, "profile": "mc", "locs": locs,
        "types": [{"id": "T0", "cap": 100, "seats": 50, "limit": 2}],
        "dhDur": [[0, 600], [600, 0]], "dhDist": [[0, 5000], [5000, 0]],
        "shuntMin": 0 if variant == 0 else 300, "shuntDh": 0, "forbid": variant == 2,
        "trips": [], "slots": [{"id": "m0", "loc": "LB", "start": 9 * 3600 + 600, "end": 9 * 3600 + 2400, "tracks": 1}],
        "maxDist": 60000,
        "depots": [
            {"id": "D0", "loc": "LA", "cap": 1, "allowed": [{"ty": "T0", "cap": -1}], "sn": "s_D0", "en": "e_D0"},
            {"id": "D1", "loc": "LB", "cap": 5, "allowed": [{"ty": "T0", "cap": 2}], "sn": "s_D1", "en": "e_D1"}],
        "costs": {"staff": 1, "svc": 2, "mnt": 1, "dh": 3, "idle": 1},
    }
    spec = [("LA", "LB", 8 * 3600, 3600, 150), ("LB", "LA", 9 * 3600, 3600, 40), ("LA", "LB", 10 * 3600 + 1800, 1800, 10)]
    for i, (o, d, dep, dur, pax) in enumerate(spec[:ntrips]):
        I["trips"].append({"id": "t%d" % i, "ty": "T0", "route": "r%d" % i, "seg": "rs%d" % i, "depId": "d%d" % i,
                           "orig": o, "dest": d, "dep": dep, "dur": dur, "dist": 20000 + 1000 * i, "pax": pax,
                           "seated": 5, "limit": -1 if i else 2})
    return gen.complete_view(I, name=I["name"])
