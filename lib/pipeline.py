"""Pipeline corpus: run server::solve_instance (with stage hooks) on generated valid instances and
turn what was observed into a TracePipe trace.  Drives, projects and logs only."""
import json
import os
import subprocess
import time
from concurrent.futures import ThreadPoolExecutor

import common
import gen


def _shift_times(o, off):
    """Subtract the instance's time offset from every time field of a projected answer (in place)."""
    if isinstance(o, dict):
        for k, v in o.items():
            if k in ("dep", "arr", "start", "end") and isinstance(v, int) and v not in (gen.EARLIEST, gen.LATEST):
                o[k] = v - off
            else:
                _shift_times(v, off)
    elif isinstance(o, list):
        for x in o:
            _shift_times(x, off)


def project_output(out, offset=0):
    """offset: seconds the abstract instance's times were shifted by (instances read from given input files)."""
    O = _project_output(out)
    if offset:
        _shift_times(O, offset)
    return O


def _project_output(out):
    """Returned JSON -> O (ISO times parsed to integer seconds; structure copied, nothing computed)."""
    obj = out["objectiveValue"]
    sch = out["schedule"]
    O = {"obj": {"unserved": obj["unservedPassengers"], "viol": obj["maintenanceViolation"],
                 "nveh": obj["vehicleCount"], "costs": obj["costs"]}}
    O["loads"] = [{"depot": d["depot"], "ty": e["vehicleType"], "n": e["spawnCount"]}
                  for d in sch["depotLoads"] for e in d["load"]]
    fleet = []
    for f in sch["fleet"]:
        vs = []
        for v in f["vehicles"]:
            vs.append({
                "id": v["id"], "sd": v["startDepot"], "ed": v["endDepot"],
                "segs": [{"id": s["departureSegment"], "orig": s["origin"], "dest": s["destination"],
                          "dep": gen.parse_iso(s["departure"]), "arr": gen.parse_iso(s["arrival"])}
                         for s in v["departureSegments"]],
                "slots": [{"id": s["maintenanceSlot"], "loc": s["location"],
                           "start": gen.parse_iso(s["start"]), "end": gen.parse_iso(s["end"])}
                          for s in v["maintenanceSlots"]],
                "dhs": [{"id": s["id"], "orig": s["origin"], "dest": s["destination"],
                         "dep": gen.parse_iso(s["departure"]), "arr": gen.parse_iso(s["arrival"])}
                        for s in v["deadHeadTrips"]],
            })
        fleet.append({"ty": f["vehicleType"], "vehicles": vs, "cycles": f["vehicleCycles"]})
    O["fleet"] = fleet
    O["segs"] = [{"id": s["departureSegment"], "orig": s["origin"], "dest": s["destination"],
                  "dep": gen.parse_iso(s["departure"]), "arr": gen.parse_iso(s["arrival"]),
                  "ty": s["vehicleType"], "form": s["formation"]} for s in sch["departureSegments"]]
    O["slots"] = [{"id": s["maintenanceSlot"], "loc": s["location"], "start": gen.parse_iso(s["start"]),
                   "end": gen.parse_iso(s["end"]), "form": s["formation"]} for s in sch["maintenanceSlots"]]
    O["dhs"] = [{"id": s["id"], "orig": s["origin"], "dest": s["destination"],
                 "dep": gen.parse_iso(s["departure"]), "arr": gen.parse_iso(s["arrival"]),
                 "form": s["formation"]} for s in sch["deadHeadTrips"]]
    return O


def run_solve_shard(exe, items, workdir, shard, per_instance_timeout, threads, cmd=("solve",)):
    """Run `rsv solve` over items with a watchdog; returns list of per-instance event lists."""
    inp = os.path.join(workdir, "in_%d.ndjson" % shard)
    common.write_ndjson(inp, items)
    results = {}
    skip = 0
    attempt = 0
    kills = 0
    env = dict(os.environ, RAYON_NUM_THREADS=str(threads), RUST_BACKTRACE="0")
    while skip < len(items):
        if kills >= 8:
            # the implementation hangs on instance after instance (each costs a full timeout): the eight
            # timeouts are reported, the rest of this shard is not run and not judged
            results.setdefault("__not_run__", []).extend(it["name"] for it in items[skip:])
            break
        outp = os.path.join(workdir, "out_%d_%d.ndjson" % (shard, attempt))
        attempt += 1
        p = subprocess.Popen([exe] + list(cmd) + ["--in", inp, "--out", outp, "--skip", str(skip)],
                             stdout=subprocess.DEVNULL, stderr=subprocess.DEVNULL, env=env)
        last_progress = time.time()
        last_size = -1
        killed = False
        while True:
            try:
                p.wait(timeout=0.2)
                break
            except subprocess.TimeoutExpired:
                pass
            try:
                size = os.path.getsize(outp)
            except OSError:
                size = 0
            if size != last_size:
                last_size = size
                last_progress = time.time()
            elif time.time() - last_progress > per_instance_timeout:
                p.kill()
                p.wait()
                killed = True
                kills += 1
                break
        evs = common.read_ndjson(outp)
        cur = None
        done = 0
        for e in evs:
            if e.get("ev") == "begin":
                cur = e["name"]
                results[cur] = []
            elif cur is not None:
                results[cur].append(e)
                if e.get("ev") == "end":
                    done += 1
                    cur = None
        if cur is not None:
            # the instance that began last did not finish
            status = "timeout" if killed else "abort"
            results[cur].append({"ev": "end", "name": cur, "status": status, "rc": p.returncode})
            done += 1
        elif not killed and p.returncode != 0 and done == 0:
            raise common.ToolError("rsv solve failed rc=%s" % p.returncode)
        skip += max(done, 1)
        os.remove(outp)
    os.remove(inp)
    return results


def solve_all(instances, profile, per_instance_timeout=60, shards=None, threads=2, cmd=("solve",), extra=None):
    exe = common.build_harness(profile)
    items = [dict({"name": I["name"], "input": gen.render(I)}, **(extra(k, I) if extra else {}))
             for k, I in enumerate(instances)]
    shards = shards or max(1, min(common.NCPU // threads, (len(items) + 3) // 4))
    workdir = os.path.join(common.WORK, "solve_%d" % os.getpid())
    os.makedirs(workdir, exist_ok=True)
    parts = [items[i::shards] for i in range(shards)]
    results = {}
    with ThreadPoolExecutor(max_workers=shards) as ex:
        futs = [ex.submit(run_solve_shard, exe, part, workdir, k, per_instance_timeout, threads, cmd)
                for k, part in enumerate(parts) if part]
        not_run = []
        for f in futs:
            r = f.result()
            not_run.extend(r.pop("__not_run__", []))
            results.update(r)
        if not_run:
            results["__not_run__"] = not_run
    try:
        os.rmdir(workdir)
    except OSError:
        pass
    return results


def build_trace(instances, results, profile):
    """One load event per instance followed by what was observed."""
    trace = []
    meta = []  # per instance: dict(name, first, last, status, wall_ms, nsteps)
    not_run = set(results.get("__not_run__", []))
    for I in instances:
        if I["name"] in not_run:
            continue
        evs = results.get(I["name"], [])
        trace.append({"ev": "load", "name": I["name"], "I": gen.spec_view(I), "dec": gen.decoupled(I)})
        li = len(trace)
        idx = {"mcf": 0, "start": 0, "ls": 0, "transopt": 0, "final": 0, "out": 0}
        prev = 0
        nsteps = 0
        base = 0
        inner = []
        optres = []
        ncand = 0
        nenum = 0
        status = "missing"
        wall = 0
        for e in evs:
            if e["ev"] == "optres":
                optres.append({"ty": e["ty"], "cyc": e["cyc"]})
            elif e["ev"] == "stage":
                trace.append({"ev": "stage", "li": li, "pi": prev, "label": e["label"], "S": e["S"]})
                prev = len(trace)
                if e["label"] in idx:
                    idx[e["label"]] = prev
                if e["label"] == "transopt":
                    # hook H4: what the optimiser itself returned, next to what the pipeline carries on
                    trace.append({"ev": "optres", "li": li, "pi": prev, "tr": optres})
                    optres = []
                if e["label"] == "ls_step":
                    nsteps += 1
            elif e["ev"] == "output":
                trace.append({"ev": "output", "li": li, "fi": idx["final"], "O": project_output(e["out"], I.get("_offset", 0))})
                idx["out"] = len(trace)
            elif e["ev"] == "panic":
                trace.append({"ev": "panic", "li": li, "msg": e["msg"]})
            elif e["ev"] == "inner":
                inner.append(e["call"])
            elif e["ev"] == "optrerun":
                trace.append({"ev": "optrerun", "li": li, "pi": idx["transopt"], "ok": e["ok"], "tr": e["tr"],
                              "msg": e.get("msg", "")})
            elif e["ev"] == "rerun":
                trace.append({"ev": "rerun", "li": li, "pi": idx["ls"], "nsteps": e["nsteps"], "S": e["S"]})
            elif e["ev"] == "base":
                trace.append({"ev": "base", "li": li, "S": e["S"]})
                base = len(trace)
            elif e["ev"] == "cand":
                trace.append({"ev": "cand", "li": li, "bi": base, "swap": e["swap"][:60], "kind": e.get("kind", ""), "sw": e["sw"], "S": e["S"]})
                ncand += 1
            elif e["ev"] == "candfail":
                trace.append({"ev": "candfail", "li": li, "swap": e["swap"][:60], "msg": e["msg"]})
            elif e["ev"] == "enum":
                trace.append({"ev": "enum", "li": li, "bi": base, "ok": e["ok"], "panic": e["panic"], "n": e["n"],
                              "logged": e["logged"], "hb": e["hb"], "ha": e["ha"], "msg": e.get("msg", ""),
                              "all": e["all"]})
                nenum += e["n"]
            elif e["ev"] == "end":
                status = e["status"]
                wall = e.get("wall_ms", 0)
        if status == "ok" and idx["out"]:
            s = {"ev": "summary", "li": li, "nsteps": nsteps}
            s.update(idx)
            trace.append(s)
        trace.append({"ev": "end", "li": li, "status": status, "profile": profile, "name": I["name"]})
        meta.append({"name": I["name"], "first": li, "last": len(trace), "status": status,
                     "wall_ms": wall, "nsteps": nsteps, "profile": I["profile"], "ncand": ncand, "nenum": nenum,
                     "inner": inner})
    for t in trace:
        common.check_ints(t)
    return trace, meta


def bundled_instances():
    """The input files that ship with the repository (as they are, including the variant with explicit nulls)."""
    out = []
    for rel in ("model/resources/small_test_input.json", "model/resources/small_test_input_with_null_values.json",
                "model/resources/small_test_input_without_maintenance.json", "solution/resources/test_instance.json"):
        p = os.path.join(common.REPO, rel)
        if not os.path.exists(p):
            continue
        try:
            with open(p) as f:
                inp = json.load(f)
            out.append(gen.from_input(inp, "bundled_" + os.path.basename(rel)[:-5]))
        except (ValueError, KeyError, TypeError, IndexError):
            continue     # a bundled file this reader cannot interpret is skipped, never judged
    return out


def corpus(tier, seed, profile="release", n=None, per_instance_timeout=60, chunk=150, instances=None,
           tag="pipe", cmd=("solve",), extra=None, only_slots=False, seed_shift=0):
    """Cached pipeline corpus (cache key: repo content hash, tier, seed, profile, size).

    Returns dict(chunks=[trace paths], instances=[meta], tags={name: [...]}).  Each chunk is a
    self-contained TracePipe trace (line numbers are local to the chunk)."""
    if instances is None:
        if n is None:
            n = 660 if tier == "quick" else 6600
        d = common.cache_dir(tag, tier, seed, profile, n)
        mp = os.path.join(d, "meta.json")
        if os.path.exists(mp):
            with open(mp) as f:
                info = json.load(f)
            if all(os.path.exists(c) for c in info["chunks"]):
                return info
        instances = [gen.gen_instance(seed + seed_shift, i) for i in range(n)]
        if tier == "thorough" and tag == "pipe":
            # larger instances as well (up to 16 departure segments)
            instances += [gen.gen_instance(seed + seed_shift + 17, n + i, max_trips=16) for i in range(n // 4)]
        if tag == "pipe":
            instances += bundled_instances()
        if only_slots:
            instances = [I for I in instances if I["slots"]]
    else:
        d = os.path.join(common.WORK, "adhoc_%d_%d" % (os.getpid(), int(time.time() * 1000) % 100000))
        os.makedirs(d, exist_ok=True)
        mp = os.path.join(d, "meta.json")
    t0 = time.time()
    results = solve_all(instances, profile, per_instance_timeout=per_instance_timeout, cmd=cmd, extra=extra)
    chunks, metas = [], []
    for c in range(0, len(instances), chunk):
        part = instances[c:c + chunk]
        trace, meta = build_trace(part, results, profile)
        tp = os.path.join(d, "trace_%d.ndjson" % (c // chunk))
        common.write_ndjson(tp + ".tmp", trace)
        os.replace(tp + ".tmp", tp)
        calls_path = os.path.join(d, "inner_%d.json" % (c // chunk))
        with open(calls_path, "w") as f:
            json.dump({m["name"]: m.pop("inner") for m in meta}, f)
        for m in meta:
            m["chunk"] = c // chunk
        chunks.append(tp)
        metas.extend(meta)
    info = {"chunks": chunks, "instances": metas, "n": len(instances), "wall_s": time.time() - t0,
            "profile": profile, "seed": seed + seed_shift, "tier": tier,
            "tags": {I["name"]: sorted(gen.classify(I)) for I in instances},
            "index": {I["name"]: i for i, I in enumerate(instances)}}
    ipath = os.path.join(d, "instances.json")
    with open(ipath, "w") as f:
        json.dump({I["name"]: I for I in instances}, f)
    info["inst_path"] = ipath
    with open(mp, "w") as f:
        json.dump(info, f)
    common.log("[corpus] %s tier=%s profile=%s n=%d %.1fs" % (tag, tier, profile, len(instances),
                                                              time.time() - t0))
    return info


_inst_cache = {}


def instance_of(info, name):
    """The full abstract instance (incl. rendering fields) of a corpus member."""
    if "adhoc" in info and name in info["adhoc"]:
        return info["adhoc"][name]
    p = info["inst_path"]
    if p not in _inst_cache:
        with open(p) as f:
            _inst_cache[p] = json.load(f)
    return _inst_cache[p][name]
